#!/bin/bash
# tools/mkpatch.sh <name> <file> <old> <new>   -- creates /verif/seeded/<name>/patch.diff by replacing the first occurrence of <old> with <new> in /repo/<file>
set -e
NAME="$1"; FILE="$2"; OLD="$3"; NEW="$4"
cd /repo
[ -z "$(git status --porcelain --untracked-files=no)" ] || { echo "/repo not clean"; exit 2; }
python3 - "$FILE" "$OLD" "$NEW" <<'PY'
import sys
f,old,new=sys.argv[1:4]
s=open(f).read()
assert old in s, "old text not found"
s=s.replace(old,new,1)
open(f,'w').write(s)
PY
mkdir -p /verif/seeded/$NAME
git diff > /verif/seeded/$NAME/patch.diff
git checkout -- .
echo "wrote /verif/seeded/$NAME/patch.diff"
