#!/bin/bash
# tools/sweep_mutants.sh [name-prefix[,name-prefix...] [k n]]  (k n: only every n-th change, offset k)
# tools/sweep_mutants.sh [name-prefix]  -- runs every seeded change against the quick tier of the check(s) of the
# property it was written for (scratch worktrees; /repo is not touched) and prints one line per (change, check).
cd "$(dirname "$0")/.."
declare -A EXTRA=( [C17-m2]="C11" [C01-m1]="C01 C09" [C06-m2]="C06 C13" [C13-m1]="C13 C06" [C07-m1]="C07 C10" [C14-m2]="C14 C01" [C08-m2]="C08 C02" [C05-m1]="C05 C15"
  [C07-m5]="C09" [C08-m5]="C16" [C09-m5]="C10" [C19-m5]="C16" [C19-m6]="C04" [C16-m6]="C15" [C08-m3]="C16" [C01-m4]="C14" [C05-m3]="C06 C05" [C05-m4]="C01 C05" [C01-m3]="C01 C09" [C01-m8]="C14" [C05-m7]="C13" [C05-m8]="C08" [C06-m8]="C13" [C11-m8]="C04" [C15-m8]="C11" [C16-m7]="C15"
  [C02-m7]="C15" [C02-m8]="C15" [C06-m9]="C13" [C06-m10]="C20" [C14-m8]="C01 C06" [C09-m8]="C07 C10" [C01-m10]="C10" [C11-m10]="C17" [C05-m9]="C05 C10" [C15-m9]="C15 C16" [C15-m10]="C15 C16" [C08-m7]="C08 C16"
  [C05-m12]="C15" [C17-m9]="C04" [C17-m10]="C11" [C15-m11]="C15 C16" [C06-m11]="C06 C01" )
K="${2:-0}"; NSH="${3:-1}"; i=0
PRE="${1:-}"; [ -z "$PRE" ] && PRE="C,own"
for d in $(for pre in $(echo "$PRE" | tr "," " "); do ls -d seeded/${pre}*/; done | sort -u); do
  n=$(basename $d)
  [ -f $d/patch.diff ] || continue
  i=$((i+1)); [ $((i % NSH)) -eq $K ] || continue
  case $n in
    own-c09-*) ids="C09";;
    own-c20-*) ids="C20";;
    *) ids="${EXTRA[$n]:-${n%-*}}";;
  esac
  MUTANT_SCRATCH=1 tools/mutant.sh $d/patch.diff $ids 2>&1 | cut -c1-260
done
