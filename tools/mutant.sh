#!/bin/bash
# tools/mutant.sh <patch-file|revert:SHA> <ID> [ID...]  -- applies a change to /repo, runs the quick checks, undoes it.
# Prints per check: CAUGHT / MISSED.
set -u
P="$1"; shift
[[ "$P" != revert:* ]] && P="$(realpath "$P")"
cd /repo || exit 2
if [ -n "$(git status --porcelain --untracked-files=no)" ]; then echo "/repo not clean"; exit 2; fi
if [[ "$P" == revert:* ]]; then
  git show "${P#revert:}" | git apply -R || { echo "revert apply failed"; exit 2; }
else
  git apply "$P" || { echo "apply failed"; exit 2; }
fi
trap 'git -C /repo checkout -- . ' EXIT
export VERIF_ROOT=/tmp/verif-mutant-$$
mkdir -p $VERIF_ROOT
cp /verif/known_findings.json $VERIF_ROOT/
for ID in "$@"; do
  OUT=$(cd /verif && VERIF_ROOT_OVERRIDE=1 ./run.sh "$ID" ${TIER:-quick} ${RACE:-} 2>&1)
  rc=$?
  if echo "$OUT" | grep -q "^VIOLATION property=$ID"; then
    echo "CAUGHT $ID by $(basename $P): $(echo "$OUT" | grep -A2 '^VIOLATION' | sed -n '2,3p' | tr '\n' ' ' | cut -c1-300)"
  else
    echo "MISSED $ID by $(basename $P) (rc=$rc): $(echo "$OUT" | tail -3 | tr '\n' ' ' | cut -c1-300)"
  fi
done
rm -rf $VERIF_ROOT
