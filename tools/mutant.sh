#!/bin/bash
# tools/mutant.sh <patch-file|revert:SHA> <ID> [ID...]
# Applies a change to a repository copy, runs the quick checks against it and undoes it.
# By default the copy is /repo itself (apply, run, git checkout); with MUTANT_SCRATCH=1 a scratch worktree of
# /repo HEAD under /tmp is used instead, so that several sweeps (and other checks) can run at the same time.
# Prints per check: CAUGHT / MISSED. Evidence and replays of these runs go to a temporary VERIF_ROOT.
set -u
ROOT="$(cd "$(dirname "$0")/.." && pwd)"
P="$1"; shift
[[ "$P" != revert:* ]] && P="$(realpath "$P")"
REPO=/repo
if [ -n "${MUTANT_SCRATCH:-}" ]; then
  REPO=/tmp/mutant-wt-$$
  git -C /repo worktree add -q --detach $REPO HEAD || exit 2
fi
cd $REPO || exit 2
if [ -n "$(git status --porcelain --untracked-files=no)" ]; then echo "$REPO not clean"; exit 2; fi
cleanup() {
  if [ "$REPO" = /repo ]; then git -C /repo checkout -- . ; else git -C /repo worktree remove --force $REPO; fi
  rm -rf "$VERIF_ROOT"
  if [ "$REPO" != /repo ]; then
    SFX="$(echo "$REPO" | md5sum | cut -c1-8)"
    rm -f $ROOT/.build/*-$SFX.test $ROOT/.build/alt-$SFX.* $ROOT/.build/.lock*-$SFX
  fi
}
export VERIF_ROOT=/tmp/verif-mutant-$$
trap cleanup EXIT
if [[ "$P" == revert:* ]]; then
  git -C /repo show "${P#revert:}" | git apply -R || { echo "revert apply failed"; exit 2; }
else
  git apply "$P" || { echo "apply failed"; exit 2; }
fi
mkdir -p $VERIF_ROOT
cp $ROOT/known_findings.json $VERIF_ROOT/
for ID in "$@"; do
  OUT=$(cd $ROOT && VERIF_REPO=$REPO VERIF_ROOT_OVERRIDE=1 ./run.sh "$ID" ${TIER:-quick} ${RACE:-} 2>&1)
  rc=$?
  if echo "$OUT" | grep -q "^VIOLATION property=$ID"; then
    echo "CAUGHT $ID by $(basename $(dirname $P))/$(basename $P): $(echo "$OUT" | grep -A2 '^VIOLATION' | sed -n '2,3p' | tr '\n' ' ' | cut -c1-300)"
  else
    echo "MISSED $ID by $(basename $(dirname $P))/$(basename $P) (rc=$rc): $(echo "$OUT" | tail -3 | tr '\n' ' ' | cut -c1-300)"
  fi
done
