#!/bin/bash
# tools/wave6.sh <ID> [extra check ids...]  -- confirms the changes a sub-agent left in $WAVE_OUT-<ID>/m{1,2}
# (default WAVE_OUT=/tmp/w6-out; tools/seedverify.sh decides) and runs the quick tier of <ID> (and of the extra
# checks) against each kept change. Kept changes get the next free names seeded/<ID>-m<k>.
ID="$1"; shift; EXTRA="$*"
cd "$(dirname "$0")/.."
OUT="${WAVE_OUT:-/tmp/w6-out}"
for k in 1 2; do
  src=$OUT-$ID/m$k
  [ -f $src/patch.diff ] || { echo "$ID m$k: no patch"; continue; }
  # already kept? (same patch text)
  name=""
  for d in seeded/$ID-m*/; do
    [ -f $d/meta.json ] && grep -q "\"wave_source\": \"$src\"" $d/meta.json && name=$(basename $d)
  done
  if [ -z "$name" ]; then
    n=1; while [ -d seeded/$ID-m$n ]; do n=$((n+1)); done
    name=$ID-m$n
    mod=gbn; grep -q '^diff --git a/mailbox' $src/patch.diff && mod=mailbox
    tools/seedverify.sh $src $name $mod 2>&1 | tail -2
    [ -f seeded/$name/meta.json ] && python3 - seeded/$name/meta.json "$src" <<'PY'
import json,sys
m=json.load(open(sys.argv[1])); m["wave_source"]=sys.argv[2]; json.dump(m,open(sys.argv[1],"w"),indent=1)
PY
  fi
  [ -f seeded/$name/patch.diff ] || continue
  MUTANT_SCRATCH=1 tools/mutant.sh seeded/$name/patch.diff $ID $EXTRA 2>&1 | cut -c1-400
done
