#!/bin/bash
# tools/wave6.sh <ID> [extra check ids...]  -- confirms the two changes a wave-6 sub-agent left in /tmp/w6-out-<ID>/m{1,2}
# (tools/seedverify.sh) and runs the quick tier of <ID> (and of the extra checks) against each kept change.
ID="$1"; shift; EXTRA="$*"
cd /verif
case $ID in C01|C05|C06|C11|C12|C13|C15|C16) base=8;; *) base=6;; esac
for k in 1 2; do
  src=/tmp/w6-out-$ID/m$k
  [ -f $src/patch.diff ] || { echo "$ID m$k: no patch"; continue; }
  name=$ID-m$((base+k))
  mod=gbn; grep -q '^diff --git a/mailbox' $src/patch.diff && mod=mailbox
  if [ ! -f seeded/$name/patch.diff ]; then
    tools/seedverify.sh $src $name $mod 2>&1 | tail -2
  fi
  [ -f seeded/$name/patch.diff ] || continue
  MUTANT_SCRATCH=1 tools/mutant.sh seeded/$name/patch.diff $ID $EXTRA 2>&1 | cut -c1-400
done
