#!/bin/bash
# tools/seedverify.sh <out-dir e.g. /tmp/out-C10/m1> <name e.g. C10-m1> <module: gbn|mailbox>
# Confirms a sub-agent's seeded change on a scratch worktree of /repo HEAD:
#  patch applies, module's existing tests pass with it, demo fails with it and passes without it.
# On success copies it to /verif/seeded/<name>/ .
set -u
SRC="$1"; NAME="$2"; MOD="${3:-gbn}"
export GOFLAGS=-mod=mod GOPROXY=off
WT=/tmp/sv-$NAME
git -C /repo worktree remove --force $WT 2>/dev/null
git -C /repo worktree add -q --detach $WT HEAD || exit 2
cleanup() { git -C /repo worktree remove --force $WT 2>/dev/null; }
trap cleanup EXIT
cd $WT
DEMO=$(ls $SRC/*.go 2>/dev/null | head -1)
PKG=$(grep -m1 '^package ' "$DEMO" | awk '{print $2}')
DEMODIR=$MOD
case "$PKG" in gbn|gbn_test) DEMODIR=gbn;; mailbox|mailbox_test) DEMODIR=mailbox;; esac
res="name=$NAME"
if git apply --check $SRC/patch.diff 2>/dev/null; then git apply $SRC/patch.diff; res="$res apply=ok";
elif git apply -3 $SRC/patch.diff 2>/dev/null; then res="$res apply=3way";
else echo "$res apply=FAILED"; exit 1; fi
git diff > /tmp/sv-$NAME.patch
TESTNAMES=$(grep -oE '^func (Test[A-Za-z0-9_]+)' "$DEMO" | awk '{print $2}' | tr '\n' '|' | sed 's/|$//')
cp "$DEMO" $DEMODIR/zz_seed_demo_test.go
( cd $DEMODIR && timeout 900 go test -vet=off -count=1 -timeout 14m -run "^($TESTNAMES)\$" . > /tmp/sv-$NAME.demo-with.log 2>&1 ); rc_with=$?
rm -f $DEMODIR/zz_seed_demo_test.go
# The repository's TestInterfaceTickers has a 10 ms wall-clock tolerance and fails on a loaded machine with or
# without any change: a suite run whose only failures are that test is repeated (up to 3 runs).
for attempt in 1 2 3; do
  ( cd $MOD && timeout 1500 go test -vet=off -count=1 -timeout 20m ./... > /tmp/sv-$NAME.suite.log 2>&1 ); rc_suite=$?
  [ $rc_suite -eq 0 ] && break
  grep -E '^\s*--- FAIL' /tmp/sv-$NAME.suite.log | grep -qv TestInterfaceTickers && break
done
git checkout -q -- . ; git status --porcelain | grep -v '^??' 
cp "$DEMO" $DEMODIR/zz_seed_demo_test.go
( cd $DEMODIR && timeout 900 go test -vet=off -count=1 -timeout 14m -run "^($TESTNAMES)\$" . > /tmp/sv-$NAME.demo-without.log 2>&1 ); rc_without=$?
rm -f $DEMODIR/zz_seed_demo_test.go
res="$res demo_with_patch_rc=$rc_with demo_without_rc=$rc_without suite_with_patch_rc=$rc_suite"
echo "$res"
if [ $rc_with -ne 0 ] && [ $rc_without -eq 0 ] && [ $rc_suite -eq 0 ]; then
  D=/verif/seeded/$NAME; mkdir -p $D
  cp /tmp/sv-$NAME.patch $D/patch.diff
  cp "$DEMO" $D/demo_test.go
  python3 - "$SRC/meta.json" "$D/meta.json" "$NAME" "$MOD" "$DEMODIR" "$TESTNAMES" <<'PY'
import json,sys
src,dst,name,mod,demodir,tests=sys.argv[1:7]
try: m=json.load(open(src))
except Exception: m={}
m["seed_name"]=name
m["confirmed_by_harness_author"]={
  "repo_head":"see git log of /repo at confirmation time",
  "ran":[f"git apply patch.diff (scratch worktree of /repo HEAD)",
         f"cd {mod} && go test -vet=off -count=1 ./...  -> pass with patch",
         f"demo copied to {demodir}/zz_seed_demo_test.go; go test -run '^({tests})$' -> FAILS with patch, PASSES without"]}
json.dump(m,open(dst,"w"),indent=1)
PY
  echo "KEPT $NAME"
else
  echo "REJECTED $NAME (see /tmp/sv-$NAME.*.log)"
fi
