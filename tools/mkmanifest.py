#!/usr/bin/env python3
"""Generates /verif/MANIFEST.json from the table below (single source of truth)."""
import json, os, sys

ROOT = os.path.dirname(os.path.dirname(os.path.abspath(__file__)))

BASELINE_OFF = ("for m in $(cat /w/out/gomods.txt); do MF=$(cd /repo/$m && . /w/out/goenv.sh && gomodflag); "
                "(cd /repo/$m && go test $MF -json -vet=off -count=1 -timeout 25m ./...); done")

# id -> (level, technique, text, note, design_ref, has_thorough)
CHECKS = {
 "C01": ("exploration", "runtime monitoring: prefix/exactly-once oracle over recorded Send/Recv histories of the real gbn code in virtual time (testing/synctest) under PRNG fault scripts",
         "Thousands of random drop/dup/delay scenarios per run for every window size, each wrapping the sequence space >=3 times, with slow consumers; the oracle compares every delivered message byte-for-byte with the accepted Send sequence and re-checks returned slices later. Sampling of schedules and fault scripts, not enumeration. One scenario in eight also makes one transport write fail with an error (the connection may give up; the prefix must hold).",
         "FIFO link model; faults after a clean handshake; go1.26.8 synctest virtual clock; harness message generator", "3/C01", True),
 "C02": ("exploration", "runtime monitoring: prefix oracle over what a real noise Machine returns when an adversary edits the captured ciphertext stream (exhaustive single-bit flips per stream, PRNG edit scripts, targeted replay/reflect/confusion cases)",
         "Every returned plaintext is compared with what the authentic peer wrote in that direction; the reader keeps reading after errors so resynchronisation, replay across key rotation, reflection and header/body confusion all become observable. Sixty (quick) / 1500 (thorough) streams run the same adversary at the connection level (NoiseGrpcConn and NoiseConn pairs, one edit per stream, PRNG read-buffer sizes).",
         "only what ReadMessage returns is judged, not computational secrecy", "3/C02", True),
 "C06": ("exploration", "runtime monitoring: bounded-progress, closure and quiescence oracles over real gbn scenarios in virtual time (fault prefix then reliable link; tail-loss and slow-resend families)",
         "Liveness is restated as bounded progress on the virtual clock: at a 2 h horizon after faults cease every accepted message is delivered or both ends failed visibly; a silent stall needs 20 resend timeouts without a delivery; after full acknowledgement no DATA packet may be retransmitted.",
         "unbounded eventually is out of reach: bounded restatement; schedules sampled", "3/C06", True),
 "C07": ("exploration", "runtime monitoring: hostile byte strings fed to the real decoders (exhaustive up to 3/4 bytes) and injected as packets into live GBN handshakes / data-phase states and noise handshakes; panic oracle via journalled worker death, window-bookkeeping invariant via hook",
         "All 256 SYN window values on both handshake paths, all 256 ACK/NACK/DATA sequence values against every sender state for N<=3 (sampled for 20 and 254), mutated noise acts and record streams; act twos that authenticate (written by a responder holding the right secret through a hook) but carry hostile length fields and payload sizes, all three versions, both patterns; live sessions of the whole stack (mailbox connections, GBN, NoiseGrpcConn over the relay model) in which the relay rewrites, replays or reflects one message in flight, with a prefix oracle on what the applications read; any panic or out-of-range bookkeeping is a violation.",
         "websocket envelope exercised through its decoding steps (hook, bulk) and through a real TLS websocket on loopback; authenticated act-two lengths that would allocate more than 64 MiB are left out", "3/C07", True),
 "C09": ("exploration", "runtime monitoring: wire-level window monitor (fresh packets vs. delivered ACK/NACKs) plus white-box queue samples on every transmission, virtual-time blocking probes, exhaustive (base,top,seq) sweep of the real queue arithmetic against an independent oracle",
         "The monitor can only under-estimate what is outstanding, so it never raises a false alarm; blocking semantics are exact in virtual time; small sequence spaces are enumerated completely. An API-boundary oracle (messages accepted minus packets covered by delivered ACK/NACKs never exceeds N) and transport write errors.",
         "FIFO link; monitor applies acknowledgements at delivery", "3/C09", True),
 "C10": ("fault_enumeration", "runtime monitoring over an enumerated fault space: every deliver/drop/dup/delay vector over the first k handshake packets per direction x start orders x stale-packet prefixes, run against the real handshake code in virtual time with mailbox-like re-dial drivers",
         "The decision vectors, start orders and stale prefixes are enumerated completely (k=2 quick, k=3 thorough); for each the negotiated windows, the SYNs actually delivered and the eventual request/response exchange are checked. 144 transport-error cases (the k-th read or write of one side fails once) extend the enumerated fault space; a constructor must return a connection or an error. The first-messages family (768 cases) enumerates the fate of the client's SYNACK x drops among the first data packets of both sides x N x an application that sends at once or after the handshake timeout, with C01's prefix oracle on the first connection pair.",
         "stale SYNs really delivered are not held against the server; schedules within a case are sampled", "3/C10", True),
 "C12": ("exploration", "runtime monitoring: Close injected at recorded event instants of real gbn scenarios in virtual time; bounded-return, FIN, wake-up oracles and a goroutine census of the bubble",
         "For every drawn scenario Close is injected at the instants of its own wire events (and at random ones), by either side, both, or twice concurrently, over a working or dead transport, with slow and stalled consumers; handshake-phase cancellation, real-time slices for blocking transports (gbn level and a mailbox connection whose write is blocked by relay backpressure) and a goroutine census after scripted mailbox sessions. The census enumerates every goroutine started inside the bubble. A self-close slice (keepalive on one side only; a one-way outage or one transient write error closes the connection by itself) checks that the peer blocked in Recv is told by a FIN over the still working transport. Mailbox client set-up cancelled while the relay refuses streams; a staggered second Close on a blocking transport must not return while the receive loop still takes packets.",
         "bounds are exact in virtual time; bare time.Ticker objects without goroutine are not enumerable; schedules sampled", "3/C12", True),
 "C13": ("exploration", "runtime monitoring: silence injected at swept instants into real gbn connections in virtual time, detection-time oracle; hours of virtual idleness for the healthy-peer clause",
         "Dead-peer detection is timed exactly on the virtual clock for every backlog class (0..N+5) and ping/pong setting; healthy idle connections are watched for up to 24 virtual hours with round-trip times up to the pong timeout (incl. the edge family in which ticks keep coinciding with arrivals); real-time slices add a slow transport, a transport with backpressure at the gbn level, and mailbox-level sessions (dead peer behind a relay holding four messages, 14 s send outage). The backpressure cases cover a fresh packet, a retransmission, and an acknowledgement write in flight as the first blocked write. Mailbox-level cases also on reconnected and refreshed connections.",
         "detection bound uses the connection's own boosted resend timeout", "3/C13", True),
 "C14": ("exploration", "runtime monitoring: message-boundary oracle over the real gbn code in virtual time; exhaustive small domain of lengths x chunk sizes, random large payloads with faults, deadlines placed between chunks with retries",
         "All lengths 0..25 x chunk sizes 0..8 x all length triples are transferred and compared byte-for-byte; deadline cases place the timer between two chunks of one message.",
         "one sender/receiver goroutine per direction", "3/C14", True),
 "C18": ("exploration", "sanitizer: Go race detector (non-halting, reports collected and deduplicated) over virtual-time scenarios with concurrent API callers and coincident timers; panic oracle via worker death; porcupine linearizability check of Send/Recv histories; two-census deadlock rule on direct stress",
         "The race detector observes the real gbn code while several goroutines call Send/Recv/Close/timeout setters and ping, pong and resend timers share instants with packet arrivals; any report with a gbn frame, any worker death or any non-linearizable history is a violation. A direct stress of the real send queue (with syncer and timeout manager) in the two roles of the connection's loops adds the lock-order deadlocks of queue/syncer to the two-census rule.",
         "race detector sees only executed accesses; porcupine Unknown = inconclusive", "3/C18", True),
 "C19": ("exploration", "runtime monitoring: round-trip oracle over the real codecs, exhaustive on all one-byte fields and on all byte strings up to 3 (quick) / 4 (thorough) bytes",
         "Every field value x flag x payload-length class is serialised and deserialised (fresh and reused targets); every short byte string that deserialises is re-serialised and decoded again. Serialised byte slices are kept and compared after later Serialize calls (retransmission buffers); one packet object is serialised again after its fields changed.",
         "semantic equality (empty payload == nil payload)", "3/C19", True),
 "C20": ("exploration", "runtime monitoring: shadow-state monitor derived from the statement, compared with the real TimeoutManager after every event of PRNG histories in virtual time",
         "Histories of Sent/Received events with arbitrary virtual gaps; the monitor checks the floor, where the value may change, the exact recomputed value and the one-step-per-interval boost rule. Live slices decide the same rule where the connection itself reports what is a retransmission: handshakes whose first SYNs are lost, and NACK-driven retransmissions with late acknowledgements.",
         "duration comparison with 1e-5 relative tolerance", "3/C20", True),
 "C03": ("exploration", "runtime monitoring: real noise Machines over a recording duplex; mismatch cases (single-bit passphrase differences, wrong stored keys) x version ranges x payload sizes with a matching-secret control; oracles on what the responder wrote, both results, snapshots and ConnData",
         "Every mismatch case is paired with its matching control so that the monitor cannot pass vacuously; the responder's written byte count is the observable form of 'auth payload never released'. One case in eight is a sequence on the same ConnData objects (pairing, then another static key plus the passphrase in both roles, then the reconnect control): the stored-at-pairing-time half of the statement. After the pairing further first-time clients are served from the same passphrase buffer; handshake read deadlines on a transport that stays open must surface as errors. Sequences on one NoiseGrpcConn credentials object (pairing whose deadline reset fails, passphrase-only intruder, reconnect) and act ones of the key-based pattern forged from public keys alone against a responder whose signer works or fails.",
         "observable secrecy only; rpctest scrypt", "3/C03", True),
 "C04": ("exploration", "runtime monitoring: man-in-the-middle rewriting of real handshakes (all version-byte substitutions across acts, single-bit flips of handshake bytes) over all version-range combinations, both patterns, payload sizes to MiB; view-agreement oracle over machine snapshots and ConnData",
         "For every trial NOT(both complete AND views differ); violating version rewrites are minimised so that the finding key names the smallest tampering. Sequences on the same ConnData objects add: a write fault at each act (a failed party must have published nothing), the retry, and reconnects with other auth payload lengths. Payload slices with spare capacity; the payload an initiator holds is re-checked after other sessions of the process have run.",
         "which range combinations complete is not judged", "3/C04", True),
 "C05": ("exploration", "runtime monitoring in real time: full stack (real Server/Client, GBN, NoiseGrpcConn) over an in-memory relay with fault injection; position-by-position byte-stream oracle, ciphertext-only scan of everything the relay saw, re-run rule for progress",
         "Sessions run in parallel with PRNG write/read-buffer sizes and relay fault profiles; a quarter of the cases are sessions of a real grpc.Server / grpc.ClientConn pair over the same stack (reply-matches-request oracle); safety oracles are time-independent; a progress miss must reproduce alone with a 300 s allowance before it counts.",
         "relay is a model of aperture's hashmail server; real-time progress verdicts follow DESIGN 1.3", "3/C05", True),
 "C08": ("exploration", "runtime monitoring: (key, nonce) registry read through the hook before every write, lock-step rotation comparison, ciphertext distinctness and plaintext-marker scan over thousands of records with PRNG interleaving of the two directions",
         "Up to 6000 records per direction (12 rotations) with bursts that cross rotation boundaries in both directions while records are in flight. A third of the sessions flush through a writer that times out inside records, with reads of the other direction and refused writes in between. Results of ReadMessage are kept and looked at again after later records.",
         "observable secrecy only", "3/C08", True),
 "C11": ("exploration", "runtime monitoring in real time: scripted sessions over real Server.Accept / Client.Dial with gRPC-like drivers on an in-memory relay; exclusivity checked at every hand-out plus porcupine one-slot-lock model; rendezvous ids read from connection addresses and relay log; intruder and outdated-client steps; raw partial-read generations",
         "Close-by-client / close-by-server / relay-failure / idle events in PRNG order, each followed by an echo on the current or a fresh connection; after pairing every connection must live at the key-derived rendezvous. Stream closes that report errors, a dialer in back-off while a malformed packet reaches the refreshed listener, per-attempt dial contexts cancelled as grpc does.",
         "real-time liveness verdicts follow the re-run rule", "3/C11", True),
 "C15": ("exploration", "runtime monitoring: net.Conn contract oracle (n<=len(buf), untouched tail, stream equality, write counts) over NoiseGrpcConn, NoiseConn and the plain mailbox connKit with PRNG write sizes and read-buffer sizes",
         "Read buffers from 1 byte to larger than a record; writes up to 300000 bytes on the TCP variant; oversized writes on the gRPC variant must fail cleanly; transport write timeouts inside records; one credentials object serving connections in turn (abandoned mid-record, late writes by the holder of a closed connection, failed handshakes); calls after Close on every variant; the real Listener/Dial over loopback TCP with a socket that gathers writes. Long sequences (1050-1349 records, two key rotations) on the gRPC and TCP variants; senders that offer the rest again before flushing a timed-out record. Deadline preludes on the real sockets (armed through one setter, cleared through another). Variant W: the plain mailbox connection with the client on the real websocket transport (local TLS endpoint bridged to the relay model), first and refreshed connection.",
         "empty-record behaviour beyond the three clauses is not judged", "3/C15", True),
 "C16": ("exploration", "runtime monitoring: the same (deterministic-ephemeral) handshake and records run unfragmented and through fragmenting readers; partial-write writer with timeout errors over all two- and three-way splits of a record, compared byte-for-byte with a bit-identical twin session",
         "Outcome equality under read fragmentation; emitted-bytes equality, flushed-count sum and ErrMessageNotFlushed under partial writes.",
         "twin sessions via BrontideMachineConfig.EphemeralGen", "3/C16", True),
 "C17": ("exploration", "runtime monitoring: algebraic identities of the real mnemonic codec against an independent 11-bit packer; SID agreement/distinctness through the real ConnData.SID/GetSID; stream ids of real ClientConn/ServerConn read from their addresses and from the relay log",
         "Boundary entropies (leading zero bytes, single bits), first/last list words in every position, key-derived and passphrase-derived SIDs for PRNG key triples. Life cycle of one ConnData across SetRemote, and callback faults (remote-key callback in a key-based handshake, auth-data callback in the first pairing): both parties must keep naming the same rendezvous.",
         "distinctness is over the sample", "3/C17", True),
}

PLANNED = {}

def main():
    props = [json.loads(l) for l in open(os.path.join(ROOT, "properties.jsonl"))]
    ids = [p["id"] for p in props]
    na_path = os.path.join(ROOT, "tools", "not_applicable.json")
    na_reasons = json.load(open(na_path)) if os.path.exists(na_path) else {}
    checks = []
    for pid in ids:
        if pid not in CHECKS:
            continue
        level, tech, text, note, ref, thorough = CHECKS[pid]
        c = {
            "property_id": pid,
            "quick_cmd": f"./run.sh {pid} quick",
            "evidence_file": f"/verif/evidence/{pid}.json",
            "replay_cmd_template": f"./run.sh {pid} --replay {{path}}",
            "engine": "harness",
            "level_claimed": {"category": level, "text": text, "design_ref": "DESIGN.md §" + ref},
            "level_note": note,
            "technique": tech,
        }
        if thorough:
            c["thorough_cmd"] = f"./run.sh {pid} thorough"
        checks.append(c)
    na = []
    for pid in ids:
        if pid in CHECKS:
            continue
        na.append({"property_id": pid, "reason": na_reasons.get(pid, "check not built yet in this round; design in DESIGN.md §3, to be claimed once its monitor runs clean")})
    hooks_commits = []
    hp = os.path.join(ROOT, "MANIFEST.hooks")
    if os.path.exists(hp):
        hooks_commits = [l.split()[0] for l in open(hp) if l.strip() and not l.startswith("#")]
    m = {
        "version": 1,
        "setup_cmd": "./setup.sh",
        "hooks": {
            "guard": "verif",
            "enable": "go1.26.8 test -c -tags \"verif rpctest\" (harness module replaces gbn and mailbox with /repo/gbn and /repo/mailbox); hook files are gbn/verif_hooks.go, mailbox/verif_hooks.go and mailbox/verif_hostile.go",
            "baseline_off_cmd": BASELINE_OFF,
            "source_commits": hooks_commits,
            "add_only": True,
        },
        "engines": [
            {"name": "harness", "path": "/verif/harness", "serves_properties": sorted(CHECKS.keys()),
             "kind_free_text": "Go test binary: scenario engines drive the real gbn/mailbox code (virtual time via testing/synctest where possible), monitors/oracles over recorded events, race detector builds, sharded child processes with journals"},
        ],
        "checks": checks,
        "not_applicable": na,
        "notes": "All checks are runtime monitors over executions of the real code built from /repo's working tree with -tags 'verif rpctest'. known_findings.json lists recorded defects; fix: commits in /repo are listed there as fixed entries.",
    }
    json.dump(m, open(os.path.join(ROOT, "MANIFEST.json"), "w"), indent=1)
    print("wrote MANIFEST.json with", len(checks), "checks,", len(na), "not_applicable")

if __name__ == "__main__":
    main()
