#!/usr/bin/env python3
"""Generates /verif/MANIFEST.json from the table below (single source of truth)."""
import json, os, sys

ROOT = os.path.dirname(os.path.dirname(os.path.abspath(__file__)))

BASELINE_OFF = ("for m in $(cat /w/out/gomods.txt); do MF=$(cd /repo/$m && . /w/out/goenv.sh && gomodflag); "
                "(cd /repo/$m && go test $MF -json -vet=off -count=1 -timeout 25m ./...); done")

# id -> (level, technique, text, note, design_ref, has_thorough)
CHECKS = {
 "C01": ("exploration", "runtime monitoring: prefix/exactly-once oracle over recorded Send/Recv histories of the real gbn code in virtual time (testing/synctest) under PRNG fault scripts",
         "Thousands of random drop/dup/delay scenarios per run for every window size, each wrapping the sequence space >=3 times; the oracle compares every delivered message byte-for-byte with the accepted Send sequence. Sampling of schedules and fault scripts, not enumeration.",
         "FIFO link model; faults after a clean handshake; go1.26.8 synctest virtual clock; harness message generator", "3/C01", True),
 "C12": ("exploration", "runtime monitoring: Close injected at recorded event instants of real gbn scenarios in virtual time; bounded-return, FIN, wake-up oracles and a goroutine census of the bubble",
         "For every drawn scenario Close is injected at the instants of its own wire events (and at random ones), by either side, both, or twice concurrently, over a working or dead transport; handshake-phase cancellation and a real-time slice for blocking transports. The census enumerates every goroutine started inside the bubble.",
         "bounds are exact in virtual time; bare time.Ticker objects without goroutine are not enumerable; schedules sampled", "3/C12", True),
 "C18": ("exploration", "sanitizer: Go race detector (non-halting, reports collected and deduplicated) over virtual-time scenarios with concurrent API callers and coincident timers; panic oracle via worker death; porcupine linearizability check of Send/Recv histories; two-census deadlock rule on direct stress",
         "The race detector observes the real gbn code while several goroutines call Send/Recv/Close/timeout setters and ping, pong and resend timers share instants with packet arrivals; any report with a gbn frame, any worker death or any non-linearizable history is a violation.",
         "race detector sees only executed accesses; porcupine Unknown = inconclusive", "3/C18", True),
}

PLANNED = {}

def main():
    props = [json.loads(l) for l in open(os.path.join(ROOT, "properties.jsonl"))]
    ids = [p["id"] for p in props]
    na_path = os.path.join(ROOT, "tools", "not_applicable.json")
    na_reasons = json.load(open(na_path)) if os.path.exists(na_path) else {}
    checks = []
    for pid in ids:
        if pid not in CHECKS:
            continue
        level, tech, text, note, ref, thorough = CHECKS[pid]
        c = {
            "property_id": pid,
            "quick_cmd": f"./run.sh {pid} quick",
            "evidence_file": f"/verif/evidence/{pid}.json",
            "replay_cmd_template": f"./run.sh {pid} --replay {{path}}",
            "engine": "harness",
            "level_claimed": {"category": level, "text": text, "design_ref": "DESIGN.md §" + ref},
            "level_note": note,
            "technique": tech,
        }
        if thorough:
            c["thorough_cmd"] = f"./run.sh {pid} thorough"
        checks.append(c)
    na = []
    for pid in ids:
        if pid in CHECKS:
            continue
        na.append({"property_id": pid, "reason": na_reasons.get(pid, "check not built yet in this round; design in DESIGN.md §3, to be claimed once its monitor runs clean")})
    hooks_commits = []
    hp = os.path.join(ROOT, "MANIFEST.hooks")
    if os.path.exists(hp):
        hooks_commits = [l.split()[0] for l in open(hp) if l.strip() and not l.startswith("#")]
    m = {
        "version": 1,
        "setup_cmd": "./setup.sh",
        "hooks": {
            "guard": "verif",
            "enable": "go1.26.8 test -c -tags \"verif rpctest\" (harness module replaces gbn and mailbox with /repo/gbn and /repo/mailbox); hook files are gbn/verif_hooks.go and mailbox/verif_hooks.go",
            "baseline_off_cmd": BASELINE_OFF,
            "source_commits": hooks_commits,
            "add_only": True,
        },
        "engines": [
            {"name": "harness", "path": "/verif/harness", "serves_properties": sorted(CHECKS.keys()),
             "kind_free_text": "Go test binary: scenario engines drive the real gbn/mailbox code (virtual time via testing/synctest where possible), monitors/oracles over recorded events, race detector builds, sharded child processes with journals"},
        ],
        "checks": checks,
        "not_applicable": na,
        "notes": "All checks are runtime monitors over executions of the real code built from /repo's working tree with -tags 'verif rpctest'. known_findings.json lists recorded defects; fix: commits in /repo are listed there as fixed entries.",
    }
    json.dump(m, open(os.path.join(ROOT, "MANIFEST.json"), "w"), indent=1)
    print("wrote MANIFEST.json with", len(checks), "checks,", len(na), "not_applicable")

if __name__ == "__main__":
    main()
