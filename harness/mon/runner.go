// Package mon holds the oracles and the shard runner shared by all checks.
package mon

import (
	"bufio"
	"bytes"
	"context"
	"encoding/json"
	"fmt"
	"hash/fnv"
	"math/rand"
	"os"
	"os/exec"
	"path/filepath"
	"regexp"
	"runtime"
	"sort"
	"strconv"
	"strings"
	"sync"
	"syscall"
	"testing"
	"time"
)

// VerifRoot is where evidence, replays and known findings live.
func VerifRoot() string {
	if r := os.Getenv("VERIF_ROOT"); r != "" {
		return r
	}
	return "/verif"
}

// Violation is one refuting observation.
type Violation struct {
	// Key is the canonical, low-cardinality identity of the failing case
	// (used to match known_findings.json).
	Key string `json:"key"`
	// Desc says what was observed.
	Desc string `json:"desc"`
	// Case is the index of the case in the check's case list.
	Case int `json:"case"`
	// Replay holds everything needed to re-run / understand the case.
	Replay any `json:"replay,omitempty"`
}

// Shard accumulates what one worker process observed.
type Shard struct {
	// LastDone is the index of the last case completed when the shard was
	// written (-1 none): a replacement worker carries on after it.
	LastDone     int  `json:"last_done"`
	HasDone      bool `json:"has_done"`
	mu           sync.Mutex
	Evals        int              `json:"evals"`
	Sigs         map[string]int   `json:"sigs"`
	Samples      []any            `json:"samples"`
	Viol         []Violation      `json:"viol"`
	Inconclusive []string         `json:"inconclusive"`
	Counters     map[string]int64 `json:"counters"`
	curCase      int
	maxSamples   int
}

// Eval counts one executed case; sig is its (non-trivial) signature, "" if the
// case was trivial.
func (s *Shard) Eval(sig string) {
	s.mu.Lock()
	s.Evals++
	if sig != "" {
		s.Sigs[sig]++
	}
	s.mu.Unlock()
}

// Sig records an additional distinct signature without counting an evaluation.
func (s *Shard) Sig(sig string) {
	s.mu.Lock()
	s.Sigs[sig]++
	s.mu.Unlock()
}

// Sample keeps up to a handful of example cases.
func (s *Shard) Sample(v any) {
	s.mu.Lock()
	if len(s.Samples) < s.maxSamples {
		s.Samples = append(s.Samples, v)
	}
	s.mu.Unlock()
}

// Count adds to a named counter.
func (s *Shard) Count(name string, n int64) {
	s.mu.Lock()
	s.Counters[name] += n
	s.mu.Unlock()
}

// Max keeps the maximum of a named gauge.
func (s *Shard) Max(name string, n int64) {
	s.mu.Lock()
	if n > s.Counters[name] {
		s.Counters[name] = n
	}
	s.mu.Unlock()
}

// Violate records a violation of the property.
func (s *Shard) Violate(key, desc string, replay any) {
	s.mu.Lock()
	if len(s.Viol) < 200 {
		s.Viol = append(s.Viol, Violation{
			Key: key, Desc: desc, Case: s.curCase, Replay: replay,
		})
	}
	s.Counters["violations_raw"]++
	s.mu.Unlock()
}

// NViol returns the number of violations recorded so far.
func (s *Shard) NViol() int {
	s.mu.Lock()
	defer s.mu.Unlock()
	return int(s.Counters["violations_raw"])
}

// Inconc records an inconclusive sub-workload.
func (s *Shard) Inconc(what string) {
	s.mu.Lock()
	if len(s.Inconclusive) < 50 {
		s.Inconclusive = append(s.Inconclusive, what)
	}
	s.Counters["inconclusive"]++
	s.mu.Unlock()
}

// Case is the context handed to a check for one case.
type Case struct {
	Idx   int
	Seed  int64
	Tier  string
	Rng   *rand.Rand
	Shard *Shard
	T     *testing.T
}

// Check describes one property check.
type Check struct {
	ID          string
	Level       string // evidence level
	Rule        string
	Assumptions []string
	// NCases returns the number of cases for the tier.
	NCases func(tier string) int
	// Run executes case c.Idx.
	Run func(c *Case)
	// Finish, if set, is called in the child after its last case.
	Finish func(s *Shard)
	// MaxProcs caps the number of worker processes (0 = 16).
	MaxProcs int
	// Watchdog is the wall-clock limit per worker (0 = default by tier).
	Watchdog time.Duration
	// Extra is merged into the coverage object (static descriptions only).
	Extra map[string]any
	// MinEvals is the minimum number of evaluations for the run to count as
	// conclusive.
	MinEvals int
	// Exhaustive marks the quick/thorough tiers that enumerate a finite
	// space completely.
	Exhaustive bool
	// RaceLogs makes the parent run the workers with the race detector in
	// non-halting mode, collect its reports and turn every report that
	// involves a frame matching RaceFrames into a violation.
	RaceLogs   bool
	RaceFrames []string
}

// Tier returns the tier of this run.
func Tier() string {
	t := os.Getenv("VERIF_TIER")
	if t == "" {
		t = "quick"
	}
	return t
}

// Seed returns the run's base seed.
func Seed() int64 {
	if v := os.Getenv("VERIF_SEED"); v != "" {
		if n, err := strconv.ParseInt(v, 10, 64); err == nil {
			return n
		}
	}
	return 1
}

// CaseSeed derives the per-case seed.
func CaseSeed(id string, idx int) int64 {
	h := fnv.New64a()
	fmt.Fprintf(h, "%s|%d|%d", id, Seed(), idx)
	return int64(h.Sum64() & 0x7fffffffffffffff)
}

func newShard() *Shard {
	return &Shard{
		Sigs: map[string]int{}, Counters: map[string]int64{},
		maxSamples: 4,
	}
}

func writeJSON(path string, v any) error {
	b, err := json.MarshalIndent(v, "", " ")
	if err != nil {
		return err
	}
	tmp := path + ".tmp"
	if err := os.WriteFile(tmp, b, 0o644); err != nil {
		return err
	}
	return os.Rename(tmp, path)
}

// Main is the entry point of every check's Test function.
func Main(t *testing.T, c Check) {
	if rp := os.Getenv("VERIF_REPLAY"); rp != "" {
		replay(t, c, rp)
		return
	}
	if os.Getenv("VERIF_SHARD") != "" {
		child(t, c)
		return
	}
	parent(t, c)
}

func runCase(t *testing.T, c Check, sh *Shard, idx int, tier string) {
	seed := CaseSeed(c.ID, idx)
	sh.curCase = idx
	c.Run(&Case{
		Idx: idx, Seed: seed, Tier: tier,
		Rng:   rand.New(rand.NewSource(seed)),
		Shard: sh, T: t,
	})
}

func replay(t *testing.T, c Check, path string) {
	b, err := os.ReadFile(path)
	if err != nil {
		t.Fatalf("replay: %v", err)
	}
	var r struct {
		Case int    `json:"case"`
		Seed int64  `json:"seed"`
		Tier string `json:"tier"`
	}
	if err := json.Unmarshal(b, &r); err != nil {
		t.Fatalf("replay: %v", err)
	}
	os.Setenv("VERIF_SEED", strconv.FormatInt(r.Seed, 10))
	sh := newShard()
	runCase(t, c, sh, r.Case, r.Tier)
	if c.Finish != nil {
		c.Finish(sh)
	}
	for _, v := range sh.Viol {
		fmt.Printf("REPLAY-VIOLATION property=%s key=%s %s\n", c.ID, v.Key, v.Desc)
		if os.Getenv("VERIF_REPLAY_DETAIL") != "" {
			if b, err := json.MarshalIndent(v.Replay, "", " "); err == nil {
				fmt.Printf("REPLAY-DETAIL %s\n", b)
			}
		}
	}
	if len(sh.Viol) > 0 {
		t.Fail()
	} else {
		fmt.Printf("replay of case %d: no violation this time\n", r.Case)
	}
}

func child(t *testing.T, c Check) {
	shard, _ := strconv.Atoi(os.Getenv("VERIF_SHARD"))
	nsh, _ := strconv.Atoi(os.Getenv("VERIF_NSHARDS"))
	out := os.Getenv("VERIF_OUT")
	tier := Tier()
	n := c.NCases(tier)
	sh := newShard()

	jf, err := os.OpenFile(out+".journal", os.O_CREATE|os.O_WRONLY|os.O_APPEND, 0o644)
	if err != nil {
		t.Fatalf("journal: %v", err)
	}
	defer jf.Close()

	last := time.Now()
	// Cases are dealt to the workers round-robin in the order of a hash of
	// their index: case kinds that are selected by idx%k do not pile up on
	// the same workers, and every worker gets the same number of cases.
	order := make([]int, n)
	for i := range order {
		order[i] = i
	}
	sort.Slice(order, func(a, b int) bool {
		ha, hb := uint32(order[a])*2654435761, uint32(order[b])*2654435761
		if ha != hb {
			return ha < hb
		}
		return order[a] < order[b]
	})
	// VERIF_SKIP_UNTIL=<case>: this worker replaces one that died in that
	// case from a check of the synctest runtime itself; it carries on with
	// the case after it.
	skipUntil, skipping := -1, false
	if v := os.Getenv("VERIF_SKIP_UNTIL"); v != "" {
		if n, err := strconv.Atoi(v); err == nil {
			skipUntil, skipping = n, true
		}
	}
	flushedViol := 0
	for pos, i := range order {
		if pos%nsh != shard {
			continue
		}
		if skipping {
			if i == skipUntil {
				skipping = false
			}
			continue
		}
		fmt.Fprintf(jf, "%d\n", i)
		if v := os.Getenv("VERIF_SELFTEST_DIE_AT"); v != "" && v == strconv.Itoa(i) && os.Getenv("VERIF_ATTEMPT") == "0" {
			// self-test of the restart path
			fmt.Fprintln(os.Stderr, "fatal error: sync: WaitGroup.Add called from inside and outside synctest bubble (self-test)")
			os.Exit(2)
		}
		runCase(t, c, sh, i, tier)
		sh.mu.Lock()
		sh.LastDone, sh.HasDone = i, true
		sh.mu.Unlock()
		if nv := sh.NViol(); nv != flushedViol || time.Since(last) > 5*time.Second {
			flushedViol = nv
			sh.mu.Lock()
			_ = writeJSON(out, sh)
			sh.mu.Unlock()
			last = time.Now()
		}
		if os.Getenv("VERIF_STOP_ON_VIOLATION") != "" && len(sh.Viol) > 0 {
			break
		}
	}
	if c.Finish != nil {
		c.Finish(sh)
	}
	fmt.Fprintf(jf, "done\n")
	sh.mu.Lock()
	err = writeJSON(out, sh)
	sh.mu.Unlock()
	if err != nil {
		t.Fatalf("write shard result: %v", err)
	}
}

// FlushAndExit is used by a check that has to abandon its process (e.g. a
// bubble that cannot be torn down after a violation): it writes the shard
// result and exits.
func FlushAndExit(sh *Shard) {
	out := os.Getenv("VERIF_OUT")
	if out != "" {
		sh.mu.Lock()
		_ = writeJSON(out, sh)
		sh.mu.Unlock()
		if jf, err := os.OpenFile(out+".journal", os.O_WRONLY|os.O_APPEND, 0o644); err == nil {
			fmt.Fprintf(jf, "done\n")
			jf.Close()
		}
	}
	os.Exit(0)
}

type finding struct {
	Property string `json:"property"`
	Key      string `json:"key"`
	What     string `json:"what"`
	Status   string `json:"status"` // "known" or "fixed"
	Commit   string `json:"commit,omitempty"`
}

func loadFindings() []finding {
	b, err := os.ReadFile(filepath.Join(VerifRoot(), "known_findings.json"))
	if err != nil {
		return nil
	}
	var f struct {
		Findings []finding `json:"findings"`
	}
	if json.Unmarshal(b, &f) != nil {
		return nil
	}
	return f.Findings
}

func parent(t *testing.T, c Check) {
	start := time.Now()
	tier := Tier()
	n := c.NCases(tier)
	procs := c.MaxProcs
	if procs == 0 {
		procs = 16
	}
	if v := os.Getenv("VERIF_PROCS"); v != "" {
		if k, err := strconv.Atoi(v); err == nil && k > 0 {
			procs = k
		}
	}
	if procs > runtime.NumCPU() {
		procs = runtime.NumCPU()
	}
	if procs > n {
		procs = n
	}
	if procs < 1 {
		procs = 1
	}
	wd := c.Watchdog
	if wd == 0 {
		wd = 10 * time.Minute
		if tier == "thorough" {
			wd = 60 * time.Minute
		}
	}

	root := VerifRoot()
	tmp, err := os.MkdirTemp("", "verif-"+c.ID+"-")
	if err != nil {
		t.Fatalf("tmp: %v", err)
	}
	defer os.RemoveAll(tmp)
	_ = os.MkdirAll(filepath.Join(root, "evidence"), 0o755)
	repDir := filepath.Join(root, "replays", c.ID)
	_ = os.MkdirAll(repDir, 0o755)
	if old, _ := filepath.Glob(filepath.Join(repDir, tier+"-*.json")); len(old) > 0 {
		for _, f := range old {
			_ = os.Remove(f)
		}
	}

	type res struct {
		shard   int
		sh      *Shard
		crashed bool
		timeout bool
		lastJ   string
		stderr  string
	}
	var results []res
	var resMu sync.Mutex
	var wg sync.WaitGroup
	runWorker := func(i, attempt int, skipUntil string) res {
		{
			out := filepath.Join(tmp, fmt.Sprintf("shard%d.%d.json", i, attempt))
			ctx, cancel := context.WithTimeout(context.Background(), wd)
			defer cancel()
			cmd := exec.Command(os.Args[0], "-test.run", "^"+t.Name()+"$",
				"-test.timeout", "0")
			env := os.Environ()
			if skipUntil != "" {
				env = append(env, "VERIF_SKIP_UNTIL="+skipUntil)
			}
			env = append(env, "VERIF_ATTEMPT="+strconv.Itoa(attempt))
			if c.RaceLogs {
				env = append(env, "GORACE=halt_on_error=0 history_size=3 log_path="+
					filepath.Join(tmp, fmt.Sprintf("race.shard%d", i)))
			}
			cmd.Env = append(env,
				"VERIF_SHARD="+strconv.Itoa(i),
				"VERIF_NSHARDS="+strconv.Itoa(procs),
				"VERIF_OUT="+out,
				"VERIF_TIER="+tier,
			)
			var eb bytes.Buffer
			cmd.Stderr = &eb
			cmd.Stdout = &eb
			if err := cmd.Start(); err != nil {
				return res{crashed: true, stderr: err.Error()}
			}
			done := make(chan error, 1)
			go func() { done <- cmd.Wait() }()
			var werr error
			timedOut := false
			select {
			case werr = <-done:
			case <-ctx.Done():
				timedOut = true
				_ = cmd.Process.Signal(syscall.SIGQUIT)
				select {
				case werr = <-done:
				case <-time.After(20 * time.Second):
					_ = cmd.Process.Kill()
					werr = <-done
				}
			}
			r := res{timeout: timedOut, stderr: headTail(eb.String(), 4000, 8000)}
			if b, err := os.ReadFile(out); err == nil {
				sh := newShard()
				if json.Unmarshal(b, sh) == nil {
					r.sh = sh
				}
			}
			r.lastJ = lastJournal(out + ".journal")
			if r.lastJ != "done" && !timedOut {
				r.crashed = true
			}
			_ = werr
			return r
		}
	}
	for i := 0; i < procs; i++ {
		wg.Add(1)
		go func(i int) {
			defer wg.Done()
			skip := ""
			for attempt := 0; attempt < 6; attempt++ {
				r := runWorker(i, attempt, skip)
				r.shard = i
				resMu.Lock()
				results = append(results, r)
				resMu.Unlock()
				// A worker that died from a check of the synctest runtime
				// itself is replaced by one that carries on after the case
				// it died in.
				if r.crashed && !r.timeout && strings.Contains(r.stderr, "called from inside and outside synctest bubble") {
					// carry on after the last case whose results were
					// written (the cases after it are run again)
					if r.sh != nil && r.sh.HasDone {
						skip = strconv.Itoa(r.sh.LastDone)
					}
					continue
				}
				return
			}
		}(i)
	}
	wg.Wait()

	total := newShard()
	total.maxSamples = 6
	var inconc []string
	for _, r := range results {
		i := r.shard
		if r.sh != nil {
			total.Evals += r.sh.Evals
			for k, v := range r.sh.Sigs {
				total.Sigs[k] += v
			}
			for _, s := range r.sh.Samples {
				if len(total.Samples) < total.maxSamples {
					total.Samples = append(total.Samples, s)
				}
			}
			total.Viol = append(total.Viol, r.sh.Viol...)
			inconc = append(inconc, r.sh.Inconclusive...)
			for k, v := range r.sh.Counters {
				if strings.HasPrefix(k, "max_") {
					if v > total.Counters[k] {
						total.Counters[k] = v
					}
				} else {
					total.Counters[k] += v
				}
			}
		}
		if r.timeout {
			dump := filepath.Join(repDir, fmt.Sprintf("watchdog-shard%d.txt", i))
			_ = os.WriteFile(dump, []byte(r.stderr), 0o644)
			inconc = append(inconc, fmt.Sprintf(
				"worker %d hit the %v wall-clock watchdog in case %s (dump: %s)",
				i, wd, r.lastJ, dump))
			if c.ID == "C18" || os.Getenv("VERIF_WATCHDOG_IS_VIOLATION") != "" {
				// handled by the check itself
				_ = dump
			}
		} else if r.crashed && strings.Contains(r.stderr, "called from inside and outside synctest bubble") {
			// A consistency check of the synctest runtime itself fired (seen
			// once in ~70 000 bubbles, on a WaitGroup that is created, used
			// and dropped inside one bubble). It says nothing about the
			// property: the worker's remaining cases are lost.
			inconc = append(inconc, fmt.Sprintf(
				"worker %d died in case %s from a synctest runtime check (%s); a new worker carried on from the last recorded case",
				i, r.lastJ, crashLine(r.stderr)))
		} else if r.crashed {
			cs, _ := strconv.Atoi(r.lastJ)
			total.Viol = append(total.Viol, Violation{
				Key:  "process-death|" + crashKind(r.stderr),
				Desc: "worker process died while executing case " + r.lastJ + ": " + crashLine(r.stderr),
				Case: cs,
				Replay: map[string]any{
					"stderr_tail": r.stderr,
				},
			})
		}
	}

	if c.RaceLogs {
		reports, total2 := collectRaceReports(tmp, c.RaceFrames)
		total.Counters["race_reports_total"] = int64(total2)
		total.Counters["race_reports_distinct"] = int64(len(reports))
		for _, r := range reports {
			total.Viol = append(total.Viol, Violation{
				Key:    "race|" + r.key,
				Desc:   fmt.Sprintf("data race reported %d time(s) by the race detector between %s", r.count, r.key),
				Case:   -1,
				Replay: map[string]any{"report": r.text},
			})
		}
	}

	// Apply known findings.
	findings := loadFindings()
	known := map[string]finding{}
	for _, f := range findings {
		if f.Property == c.ID && f.Status == "known" {
			known[f.Key] = f
		}
	}
	printedKnown := map[string]bool{}
	nviol := 0
	seenKey := map[string]int{}
	for _, v := range total.Viol {
		if f, ok := known[v.Key]; ok {
			if !printedKnown[v.Key] {
				fmt.Printf("KNOWN-FINDING: property=%s %s [key=%s]\n", c.ID, f.What, v.Key)
				printedKnown[v.Key] = true
			}
			continue
		}
		nviol++
		seenKey[v.Key]++
		if seenKey[v.Key] > 3 {
			continue
		}
		rp := filepath.Join(repDir, fmt.Sprintf("%s-case%d-%d.json", tier, v.Case, seenKey[v.Key]))
		_ = writeJSON(rp, map[string]any{
			"property": c.ID, "case": v.Case, "seed": Seed(), "tier": tier,
			"key": v.Key, "desc": v.Desc, "detail": v.Replay,
		})
		fmt.Printf("VIOLATION property=%s replay=%s\n", c.ID, rp)
		fmt.Printf("  key=%s\n  %s\n", v.Key, oneLine(v.Desc, 600))
	}

	// Evidence.
	sigs := make([]string, 0, len(total.Sigs))
	for k := range total.Sigs {
		sigs = append(sigs, k)
	}
	sort.Strings(sigs)
	cov := map[string]any{
		"evaluations":         total.Evals,
		"distinct_nontrivial": len(total.Sigs),
		"rule":                c.Rule,
		"samples":             total.Samples,
		"counters":            total.Counters,
		"cases_planned":       n,
		"workers":             procs,
		"inconclusive":        inconc,
		"known_findings_seen": keys(printedKnown),
	}
	if c.Exhaustive {
		cov["exhaustive"] = true
	}
	for k, v := range c.Extra {
		cov[k] = v
	}
	if len(total.Samples) == 0 {
		cov["samples"] = []any{"(no sample recorded)"}
	}
	ev := map[string]any{
		"property_id": c.ID,
		"tier":        tier,
		"seed":        Seed(),
		"level":       c.Level,
		"coverage":    cov,
		"assumptions": c.Assumptions,
		"wall_s":      time.Since(start).Seconds(),
		"violations":  nviol,
	}
	evPath := filepath.Join(root, "evidence", c.ID+".json")
	if err := writeJSON(evPath, ev); err != nil {
		t.Fatalf("evidence: %v", err)
	}

	fmt.Printf("%s %s: %d evaluations, %d distinct signatures, %d violations, %d known findings, %d inconclusive, %.1fs\n",
		c.ID, tier, total.Evals, len(total.Sigs), nviol, len(printedKnown), len(inconc),
		time.Since(start).Seconds())
	var cn []string
	for k, v := range total.Counters {
		cn = append(cn, fmt.Sprintf("%s=%d", k, v))
	}
	sort.Strings(cn)
	fmt.Printf("  counters: %s\n", strings.Join(cn, " "))
	for _, s := range inconc {
		fmt.Printf("  INCONCLUSIVE: %s\n", oneLine(s, 300))
	}

	if nviol > 0 {
		t.Fail()
		return
	}
	min := c.MinEvals
	if min == 0 {
		min = 1
	}
	if total.Evals < min {
		fmt.Printf("CHECK-BROKEN property=%s: only %d evaluations observed (minimum %d): the monitors saw too little to conclude anything\n",
			c.ID, total.Evals, min)
		t.Fail()
	}
}

func keys(m map[string]bool) []string {
	r := []string{}
	for k := range m {
		r = append(r, k)
	}
	sort.Strings(r)
	return r
}

func headTail(s string, h, t int) string {
	if len(s) <= h+t {
		return s
	}
	return s[:h] + "\n...[snip]...\n" + s[len(s)-t:]
}

func tail(s string, n int) string {
	if len(s) > n {
		return s[len(s)-n:]
	}
	return s
}

func oneLine(s string, n int) string {
	s = strings.ReplaceAll(s, "\n", " | ")
	if len(s) > n {
		s = s[:n] + "..."
	}
	return s
}

func lastJournal(path string) string {
	f, err := os.Open(path)
	if err != nil {
		return "?"
	}
	defer f.Close()
	last := "?"
	sc := bufio.NewScanner(f)
	for sc.Scan() {
		if s := strings.TrimSpace(sc.Text()); s != "" {
			last = s
		}
	}
	return last
}

// crashLine extracts the first panic / fatal line of a stderr dump.
func crashLine(s string) string {
	for _, l := range strings.Split(s, "\n") {
		if strings.HasPrefix(l, "panic:") || strings.HasPrefix(l, "fatal error:") ||
			strings.Contains(l, "WARNING: DATA RACE") {
			return strings.TrimSpace(l)
		}
	}
	return oneLine(tail(s, 300), 300)
}

func crashKind(s string) string {
	l := crashLine(s)
	switch {
	case strings.Contains(l, "index out of range"), strings.Contains(l, "slice bounds out of range"):
		return "index"
	case strings.Contains(l, "divide by zero"):
		return "divzero"
	case strings.Contains(l, "nil pointer"):
		return "nilderef"
	case strings.Contains(l, "close of closed channel"):
		return "close-closed"
	case strings.Contains(l, "send on closed channel"):
		return "send-closed"
	case strings.Contains(l, "DATA RACE"):
		return "race"
	case strings.HasPrefix(l, "panic:"):
		return "panic"
	case strings.HasPrefix(l, "fatal error:"):
		return "fatal"
	}
	return "exit"
}

type raceReport struct {
	key   string
	text  string
	count int
}

var lineNoRe = regexp.MustCompile(`:\d+ \+0x[0-9a-f]+`)

// collectRaceReports parses the race detector's log files, keeps the reports
// that involve one of the given frame fragments and deduplicates them by the
// pair of innermost functions of the two conflicting accesses.
func collectRaceReports(dir string, frames []string) ([]raceReport, int) {
	files, _ := filepath.Glob(filepath.Join(dir, "race.shard*"))
	byKey := map[string]*raceReport{}
	total := 0
	for _, f := range files {
		b, err := os.ReadFile(f)
		if err != nil {
			continue
		}
		for _, blk := range strings.Split(string(b), "==================") {
			if !strings.Contains(blk, "WARNING: DATA RACE") {
				continue
			}
			total++
			rel := false
			for _, fr := range frames {
				if strings.Contains(blk, fr) {
					rel = true
				}
			}
			if !rel {
				continue
			}
			// innermost function of each access: the line following
			// "Read at"/"Write at"/"Previous read at"/"Previous write at".
			var fns []string
			lines := strings.Split(blk, "\n")
			for i, l := range lines {
				lt := strings.TrimSpace(l)
				if (strings.HasPrefix(lt, "Read at") || strings.HasPrefix(lt, "Write at") ||
					strings.HasPrefix(lt, "Previous read at") || strings.HasPrefix(lt, "Previous write at")) && i+1 < len(lines) {
					fn := strings.TrimSpace(lines[i+1])
					if j := strings.Index(fn, "("); j > 0 && strings.HasSuffix(fn, ")") {
						// keep full name incl. receiver
					}
					fns = append(fns, fn)
				}
			}
			sort.Strings(fns)
			key := strings.Join(fns, " <-> ")
			if r, ok := byKey[key]; ok {
				r.count++
			} else {
				byKey[key] = &raceReport{key: key, text: lineNoRe.ReplaceAllString(tail(blk, 5000), ""), count: 1}
			}
		}
	}
	var out []raceReport
	for _, r := range byKey {
		out = append(out, *r)
	}
	sort.Slice(out, func(i, j int) bool { return out[i].key < out[j].key })
	return out, total
}

// NewShardForDebug returns an empty shard for debugging aids that run a case
// outside the sharded runner.
func NewShardForDebug() *Shard { return newShard() }
