// Package sim contains the adversarial environments the real code is run
// against: a lossy FIFO packet link (GBN level), a byte-stream middlebox (Noise
// level) and an in-memory hashmail relay (mailbox level).
package sim

import (
	"context"
	"errors"
	"fmt"
	"math/rand"
	"sync"
	"time"
)

// Packet types of the GBN wire format, decoded independently of gbn.Deserialize.
const (
	TSyn    = 1
	TData   = 2
	TAck    = 3
	TNack   = 4
	TFin    = 5
	TSynAck = 6
)

// Pkt is the harness's own decoding of a GBN packet.
type Pkt struct {
	Type    byte
	Seq     byte // seq for DATA/ACK/NACK, N for SYN
	Final   bool
	Ping    bool
	Payload []byte
	Valid   bool
}

// Parse decodes a raw GBN packet with the harness's own decoder.
func Parse(b []byte) Pkt {
	if len(b) == 0 {
		return Pkt{}
	}
	p := Pkt{Type: b[0]}
	switch b[0] {
	case TData:
		if len(b) < 4 {
			return p
		}
		p.Seq, p.Final, p.Ping, p.Payload = b[1], b[2] == 1, b[3] == 1, b[4:]
		p.Valid = true
	case TAck, TNack, TSyn:
		if len(b) < 2 {
			return p
		}
		p.Seq = b[1]
		p.Valid = true
	case TFin, TSynAck:
		p.Valid = true
	}
	return p
}

func (p Pkt) String() string {
	switch p.Type {
	case TSyn:
		return fmt.Sprintf("SYN(%d)", p.Seq)
	case TData:
		k := "DATA"
		if p.Ping {
			k = "PING"
		}
		return fmt.Sprintf("%s(%d,f=%v,len=%d)", k, p.Seq, p.Final, len(p.Payload))
	case TAck:
		return fmt.Sprintf("ACK(%d)", p.Seq)
	case TNack:
		return fmt.Sprintf("NACK(%d)", p.Seq)
	case TFin:
		return "FIN"
	case TSynAck:
		return "SYNACK"
	}
	return fmt.Sprintf("?%d", p.Type)
}

// Decision is what the link does with one packet handed to Send.
type Decision struct {
	Drop  bool
	Dup   int           // number of extra in-order copies
	Delay time.Duration // extra delay on top of the base latency
}

// Decider chooses the fate of the idx-th packet sent on the link.
type Decider func(idx int, p Pkt, now time.Time) Decision

// WireEvent is one entry of the link's log.
type WireEvent struct {
	T    time.Duration // since link creation
	Kind string        // "send", "drop", "deliver"
	Idx  int           // index of the Send call
	P    Pkt
	Dup  int
}

type item struct {
	data []byte
	at   time.Time
	idx  int
}

// Link is a unidirectional, order-preserving packet link. Send never blocks
// (unless BlockSend is set); Recv blocks until the head packet's delivery time
// has come. All time comes from package time, so inside a synctest bubble the
// link runs on the virtual clock.
type Link struct {
	Name string

	mu        sync.Mutex
	q         []item
	wake      chan struct{}
	lastAt    time.Time
	closed    bool
	decide    Decider
	latency   time.Duration
	sendIdx   int
	blackhole bool
	blockSend bool
	// blockConnScoped: a blocked send is released only when the context of
	// the connection ends (the context of the latest Send call that carried
	// no deadline), not when the context of the call itself does - the
	// behaviour of a stream write of the mailbox transports.
	blockConnScoped bool
	connCtx         context.Context
	failSends int
	failSkip  int

	failRecvs    int
	failRecvSkip int
	failRecvErr  error
	failErr      error
	sendCost     time.Duration
	// jitter: PRNG-chosen durations of Send and Recv calls (see SetJitter)
	jitRng *rand.Rand
	jitP   float64
	jitMax time.Duration
	t0     time.Time
	spinAt time.Time
	spinN  int

	// OnSend, if set, is called synchronously from Send (in the sender's
	// goroutine) before the packet is queued.
	OnSend func(idx int, p Pkt)
	// OnDeliver, if set, is called synchronously from Recv (in the
	// receiver's goroutine) right before the packet is returned.
	OnDeliver func(idx int, p Pkt)

	log     []WireEvent
	KeepLog bool
	nSent   int
	nDrop   int
	nDup    int
	nDeliv  int
}

// ErrLinkClosed is returned by Recv / Send once the link was closed.
var ErrLinkClosed = errors.New("sim link closed")

// NewLink creates a link with the given base one-way latency.
func NewLink(name string, latency time.Duration) *Link {
	return &Link{
		Name:    name,
		wake:    make(chan struct{}, 1),
		latency: latency,
		t0:      time.Now(),
		KeepLog: true,
	}
}

// SetDecider installs (or removes, with nil) the fault decider.
func (l *Link) SetDecider(d Decider) {
	l.mu.Lock()
	l.decide = d
	l.mu.Unlock()
}

// SetLatency changes the base latency for packets sent from now on.
func (l *Link) SetLatency(d time.Duration) {
	l.mu.Lock()
	l.latency = d
	l.mu.Unlock()
}

// SetBlackhole makes the link silently discard everything sent from now on
// (and, if flush is set, everything still queued).
func (l *Link) SetBlackhole(on, flush bool) {
	l.mu.Lock()
	l.blackhole = on
	if flush {
		l.q = nil
	}
	l.mu.Unlock()
}

// FailNextSends makes the next n Send calls fail with err (a transient write
// error of the transport: the packet is not sent, the link keeps working).
func (l *Link) FailNextSends(n int, err error) {
	l.FailSendsAfter(0, n, err)
}

// FailSendsAfter lets skip further Send calls pass and makes the n calls after
// them fail with err.
func (l *Link) FailSendsAfter(skip, n int, err error) {
	l.mu.Lock()
	l.failSkip, l.failSends, l.failErr = skip, n, err
	l.mu.Unlock()
}

// FailRecvsAfter lets skip further Recv calls pass and makes the n calls after
// them fail with err (a transient read error: nothing is lost, the link keeps
// working).
func (l *Link) FailRecvsAfter(skip, n int, err error) {
	l.mu.Lock()
	l.failRecvSkip, l.failRecvs, l.failRecvErr = skip, n, err
	l.mu.Unlock()
}

// SetSendCost makes every Send call take d (a slow transport write): the
// caller is held for d before the packet is queued.
func (l *Link) SetSendCost(d time.Duration) {
	l.mu.Lock()
	l.sendCost = d
	l.mu.Unlock()
}

// SetJitter makes a fraction p of the Send and Recv calls take a PRNG-chosen
// time in [1ns, max] (a transport whose calls are not instantaneous). In virtual
// time this reorders everything else that happens at the same instant around the
// call. FIN packets are exempt: Close sends them inside a sync.Once, and a
// bubble cannot advance its clock while another goroutine waits for that Once.
func (l *Link) SetJitter(seed int64, p float64, max time.Duration) {
	l.mu.Lock()
	l.jitRng, l.jitP, l.jitMax = rand.New(rand.NewSource(seed)), p, max
	l.mu.Unlock()
}

// jitterLocked draws the extra duration of one call.
func (l *Link) jitterLocked() time.Duration {
	if l.jitRng == nil || l.jitMax <= 0 || l.jitRng.Float64() >= l.jitP {
		return 0
	}
	return 1 + time.Duration(l.jitRng.Int63n(int64(l.jitMax)))
}

// SetBlockSend makes Send block until its context is cancelled.
// SetBlockConnScoped makes blocked sends (SetBlockSend) wait for the end of
// the connection's context instead of the context of the call.
func (l *Link) SetBlockConnScoped(on bool) {
	l.mu.Lock()
	l.blockConnScoped = on
	l.mu.Unlock()
}

func (l *Link) SetBlockSend(on bool) {
	l.mu.Lock()
	l.blockSend = on
	l.mu.Unlock()
}

// Inject queues a raw packet as if it had been sent, bypassing the decider.
func (l *Link) Inject(b []byte) {
	l.mu.Lock()
	l.enqueueLocked(append([]byte{}, b...), 0, -1)
	l.mu.Unlock()
	l.kick()
}

func (l *Link) kick() {
	select {
	case l.wake <- struct{}{}:
	default:
	}
}

func (l *Link) enqueueLocked(b []byte, extra time.Duration, idx int) {
	at := time.Now().Add(l.latency + extra)
	if at.Before(l.lastAt) {
		at = l.lastAt
	}
	l.lastAt = at
	l.q = append(l.q, item{data: b, at: at, idx: idx})
}

func (l *Link) logf(kind string, idx int, p Pkt, dup int) {
	if !l.KeepLog {
		return
	}
	p.Payload = nil
	l.log = append(l.log, WireEvent{
		T: time.Since(l.t0), Kind: kind, Idx: idx, P: p, Dup: dup,
	})
}

// Send hands a packet to the link. It implements gbn's sendBytesFunc.
func (l *Link) Send(ctx context.Context, b []byte) error {
	// Like the real transports (ClientConn.send, ServerConn.sendToStream
	// and the gRPC streams below them), the link refuses a write whose
	// context is already done.
	if err := ctx.Err(); err != nil {
		return err
	}
	l.mu.Lock()
	if l.closed {
		l.mu.Unlock()
		return ErrLinkClosed
	}
	if _, has := ctx.Deadline(); !has {
		l.connCtx = ctx
	}
	if l.blockSend {
		wait := ctx
		if l.blockConnScoped && l.connCtx != nil {
			wait = l.connCtx
		}
		l.mu.Unlock()
		<-wait.Done()
		return wait.Err()
	}
	if l.failSends > 0 && l.failSkip > 0 {
		l.failSkip--
	} else if l.failSends > 0 {
		l.failSends--
		err := l.failErr
		l.logf("write-error", l.sendIdx, Parse(b), 0)
		l.mu.Unlock()
		return err
	}
	idx := l.sendIdx
	l.sendIdx++
	l.nSent++
	// A sender that puts hundreds of thousands of packets on the wire at one
	// and the same (virtual) instant is spinning: report it instead of
	// filling the memory with its packets.
	if now := time.Now(); now.Equal(l.spinAt) {
		if l.spinN++; l.spinN > 300000 {
			panic(fmt.Sprintf("livelock: %d packets sent on link %s at one virtual instant; last: %s", l.spinN, l.Name, Parse(b).String()))
		}
	} else {
		l.spinAt, l.spinN = now, 0
	}
	p := Parse(b)
	onSend := l.OnSend
	cost := l.sendCost
	if p.Type != TFin {
		cost += l.jitterLocked()
	}
	l.mu.Unlock()

	if cost > 0 {
		select {
		case <-time.After(cost):
		case <-ctx.Done():
			return ctx.Err()
		}
	}

	if onSend != nil {
		onSend(idx, p)
	}

	l.mu.Lock()
	defer l.mu.Unlock()
	if l.closed {
		return ErrLinkClosed
	}
	var d Decision
	if l.decide != nil {
		d = l.decide(idx, p, time.Now())
	}
	if l.blackhole {
		d.Drop = true
	}
	if d.Drop {
		l.nDrop++
		l.logf("drop", idx, p, 0)
		return nil
	}
	l.logf("send", idx, p, d.Dup)
	cp := append([]byte{}, b...)
	l.enqueueLocked(cp, d.Delay, idx)
	for i := 0; i < d.Dup; i++ {
		l.nDup++
		l.enqueueLocked(append([]byte{}, b...), d.Delay, idx)
	}
	select {
	case l.wake <- struct{}{}:
	default:
	}
	return nil
}

// Recv returns the next packet once its delivery time has come. It implements
// gbn's recvBytesFunc and may be called from several goroutines.
func (l *Link) Recv(ctx context.Context) ([]byte, error) {
	l.mu.Lock()
	if l.failRecvs > 0 {
		if l.failRecvSkip > 0 {
			l.failRecvSkip--
		} else {
			l.failRecvs--
			err := l.failRecvErr
			l.mu.Unlock()
			return nil, err
		}
	}
	l.mu.Unlock()
	jittered := false
	for {
		l.mu.Lock()
		if l.closed {
			l.mu.Unlock()
			l.kick()
			return nil, ErrLinkClosed
		}
		var wait time.Duration = -1
		if len(l.q) > 0 {
			head := l.q[0]
			wait = time.Until(head.at)
			if wait <= 0 && !jittered {
				// a slow read: the call takes a little before it
				// picks the packet up (the delivery is logged when
				// the packet is really handed over)
				jittered = true
				if jit := l.jitterLocked(); jit > 0 {
					l.mu.Unlock()
					select {
					case <-time.After(jit):
					case <-ctx.Done():
						return nil, ctx.Err()
					}
					continue
				}
			}
			if wait <= 0 {
				l.q = l.q[1:]
				l.nDeliv++
				p := Parse(head.data)
				l.logf("deliver", head.idx, p, 0)
				onDeliver := l.OnDeliver
				more := len(l.q) > 0
				l.mu.Unlock()
				if more {
					l.kick()
				}
				if onDeliver != nil {
					onDeliver(head.idx, p)
				}
				return head.data, nil
			}
		}
		l.mu.Unlock()

		if wait < 0 {
			select {
			case <-ctx.Done():
				return nil, ctx.Err()
			case <-l.wake:
			}
			continue
		}
		tm := time.NewTimer(wait)
		select {
		case <-ctx.Done():
			tm.Stop()
			return nil, ctx.Err()
		case <-l.wake:
			tm.Stop()
		case <-tm.C:
		}
	}
}

// Close shuts the link: pending and future Recv/Send calls fail.
func (l *Link) Close() {
	l.mu.Lock()
	l.closed = true
	l.q = nil
	l.mu.Unlock()
	// Wake every waiter: each woken waiter re-kicks the next one.
	l.kick()
}

// Pending returns the number of queued, undelivered packets.
func (l *Link) Pending() int {
	l.mu.Lock()
	defer l.mu.Unlock()
	return len(l.q)
}

// Log returns a copy of the wire log.
func (l *Link) Log() []WireEvent {
	l.mu.Lock()
	defer l.mu.Unlock()
	return append([]WireEvent{}, l.log...)
}

// Stats returns sent / dropped / duplicated / delivered counters.
func (l *Link) Stats() (sent, drop, dup, deliv int) {
	l.mu.Lock()
	defer l.mu.Unlock()
	return l.nSent, l.nDrop, l.nDup, l.nDeliv
}
