package sim

import (
	"context"
	"encoding/hex"
	"fmt"
	"io"
	"sync"
	"time"

	"github.com/lightninglabs/lightning-node-connect/hashmailrpc"
	"google.golang.org/grpc"
	"google.golang.org/grpc/codes"
	"google.golang.org/grpc/metadata"
	"google.golang.org/grpc/status"
)

// Relay is an in-memory hashmail relay that implements
// hashmailrpc.HashMailClient. Its semantics follow aperture's
// hashmail_server.go: a cipher box is a FIFO pipe with exactly one reader slot
// and one writer slot; NewCipherBox of an existing box fails with
// codes.AlreadyExists; a stream on an unknown box fails with "stream not
// found", on a taken slot with "read/write stream occupied"; slots are
// released when the stream's context ends or the stream has failed. As with a
// real gRPC stream, opening a stream never fails by itself: the error
// surfaces on the first Recv, and on the Send that follows the failed one.
type Relay struct {
	mu    sync.Mutex
	boxes map[string]*box
	// Cap is the number of messages a box buffers before Send blocks.
	Cap int

	// frozen boxes deliver nothing to their reader (a reader that has died
	// without closing its stream), see FreezeReads.
	frozen map[string]bool

	// Fault is consulted (under no lock) for every relay operation.
	Fault func(op RelayOp) RelayAction
	// Rewrite, if set (before the relay is used), sees every message that is
	// about to be queued in a mailbox and returns what is queued instead: a
	// relay that alters traffic. n counts the messages of the stream object.
	Rewrite func(stream string, n int, msg []byte) []byte

	log     []RelayEvent
	KeepLog bool
	// Msgs collects every CipherBox.Msg the relay has ever seen.
	msgs    [][]byte
	KeepMsg bool
	t0      time.Time
	nOps    int
}

// RelayOp describes an operation for the fault hook.
type RelayOp struct {
	Kind   string // "newbox", "delbox", "sendstream", "recvstream", "send", "recv"
	Stream string // hex stream id (may be empty for sendstream)
	Seq    int    // global operation counter
	N      int    // per-stream-object message counter for send/recv
	Len    int
}

// RelayAction is what the fault hook asks for.
type RelayAction struct {
	Fail  error         // fail the operation (for send/recv: break the stream)
	Drop  bool          // send: silently lose the message
	Delay time.Duration // send: hold the message back
}

// RelayEvent is one log entry.
type RelayEvent struct {
	T      time.Duration
	Kind   string
	Stream string
	Note   string
}

type qmsg struct {
	b  []byte
	at time.Time
}

type box struct {
	id      string
	q       []qmsg
	wake    chan struct{}
	reader  bool
	writer  bool
	deleted bool
	lastAt  time.Time
}

// NewRelay creates an empty relay.
func NewRelay() *Relay {
	return &Relay{boxes: map[string]*box{}, Cap: 64, KeepLog: true, KeepMsg: true, t0: time.Now()}
}

func (r *Relay) logf(kind, stream, note string) {
	if !r.KeepLog {
		return
	}
	r.log = append(r.log, RelayEvent{T: time.Since(r.t0), Kind: kind, Stream: short(stream), Note: note})
}

func short(s string) string {
	if len(s) > 12 {
		return s[:6] + ".." + s[len(s)-4:]
	}
	return s
}

// Log returns a copy of the event log.
func (r *Relay) Log() []RelayEvent {
	r.mu.Lock()
	defer r.mu.Unlock()
	return append([]RelayEvent{}, r.log...)
}

// Messages returns every message payload the relay has seen.
func (r *Relay) Messages() [][]byte {
	r.mu.Lock()
	defer r.mu.Unlock()
	return append([][]byte{}, r.msgs...)
}

// FreezeReads makes the box deliver nothing to its reader any more (on) or
// resumes delivery: the reader process has died, or hangs, without closing its
// stream. Writers keep filling the box until it is full and then block.
func (r *Relay) FreezeReads(id string, on bool) {
	r.mu.Lock()
	if r.frozen == nil {
		r.frozen = map[string]bool{}
	}
	r.frozen[id] = on
	if b, ok := r.boxes[id]; ok {
		kick(b.wake)
	}
	r.mu.Unlock()
}

// Inject appends a message to a mailbox as if some writer had sent it (a party
// in control of the relay can do that). It reports whether the box exists.
func (r *Relay) Inject(id string, msg []byte) bool {
	r.mu.Lock()
	defer r.mu.Unlock()
	b, ok := r.boxes[id]
	if !ok || b.deleted {
		return false
	}
	b.q = append(b.q, qmsg{b: append([]byte{}, msg...), at: time.Now()})
	r.logf("inject", id, "")
	kick(b.wake)
	return true
}

// Boxes returns the ids of the existing boxes.
func (r *Relay) Boxes() []string {
	r.mu.Lock()
	defer r.mu.Unlock()
	var out []string
	for k := range r.boxes {
		out = append(out, k)
	}
	return out
}

func (r *Relay) fault(kind, stream string, n, l int) RelayAction {
	r.mu.Lock()
	r.nOps++
	seq := r.nOps
	f := r.Fault
	r.mu.Unlock()
	if f == nil {
		return RelayAction{}
	}
	return f(RelayOp{Kind: kind, Stream: stream, Seq: seq, N: n, Len: l})
}

// NewCipherBox implements hashmailrpc.HashMailClient.
func (r *Relay) NewCipherBox(ctx context.Context, in *hashmailrpc.CipherBoxAuth, _ ...grpc.CallOption) (*hashmailrpc.CipherInitResp, error) {
	id := hex.EncodeToString(in.GetDesc().GetStreamId())
	if a := r.fault("newbox", id, 0, 0); a.Fail != nil {
		return nil, a.Fail
	}
	r.mu.Lock()
	defer r.mu.Unlock()
	if _, ok := r.boxes[id]; ok {
		r.logf("newbox", id, "already exists")
		return nil, status.Error(codes.AlreadyExists, "stream already active")
	}
	r.boxes[id] = &box{id: id, wake: make(chan struct{}, 1)}
	r.logf("newbox", id, "")
	return &hashmailrpc.CipherInitResp{Resp: &hashmailrpc.CipherInitResp_Success{}}, nil
}

// DelCipherBox implements hashmailrpc.HashMailClient.
func (r *Relay) DelCipherBox(ctx context.Context, in *hashmailrpc.CipherBoxAuth, _ ...grpc.CallOption) (*hashmailrpc.DelCipherBoxResp, error) {
	id := hex.EncodeToString(in.GetDesc().GetStreamId())
	if a := r.fault("delbox", id, 0, 0); a.Fail != nil {
		return nil, a.Fail
	}
	r.mu.Lock()
	defer r.mu.Unlock()
	b, ok := r.boxes[id]
	if !ok {
		r.logf("delbox", id, "not found")
		return nil, status.Error(codes.Unknown, "stream not found")
	}
	b.deleted = true
	delete(r.boxes, id)
	kick(b.wake)
	r.logf("delbox", id, "")
	return &hashmailrpc.DelCipherBoxResp{}, nil
}

func kick(c chan struct{}) {
	select {
	case c <- struct{}{}:
	default:
	}
}

type streamStub struct{ ctx context.Context }

func (s *streamStub) Header() (metadata.MD, error) { return nil, nil }
func (s *streamStub) Trailer() metadata.MD         { return nil }
func (s *streamStub) Context() context.Context     { return s.ctx }
func (s *streamStub) SendMsg(m interface{}) error  { return fmt.Errorf("not supported") }
func (s *streamStub) RecvMsg(m interface{}) error  { return fmt.Errorf("not supported") }

// SendStream implements hashmailrpc.HashMailClient.
func (r *Relay) SendStream(ctx context.Context, _ ...grpc.CallOption) (hashmailrpc.HashMail_SendStreamClient, error) {
	if a := r.fault("sendstream", "", 0, 0); a.Fail != nil {
		return nil, a.Fail
	}
	// as grpc.ClientConn.NewStream: a context that is already done fails
	// the call at once
	if err := ctx.Err(); err != nil {
		return nil, status.FromContextError(err).Err()
	}
	s := &sendStream{streamStub: streamStub{ctx: ctx}, r: r}
	return s, nil
}

type sendStream struct {
	streamStub
	r      *Relay
	mu     sync.Mutex
	b      *box
	failed error
	n      int
	closed bool
}

func (s *sendStream) release() {
	// caller holds r.mu
	if s.b != nil && s.b.writer {
		s.b.writer = false
		s.r.logf("sendstream-released", s.b.id, "")
	}
	s.b = nil
}

// Send implements HashMail_SendStreamClient.
func (s *sendStream) Send(cb *hashmailrpc.CipherBox) error {
	s.mu.Lock()
	defer s.mu.Unlock()
	if s.ctx.Err() != nil {
		return status.FromContextError(s.ctx.Err()).Err()
	}
	if s.failed != nil || s.closed {
		return io.EOF
	}
	id := hex.EncodeToString(cb.GetDesc().GetStreamId())
	r := s.r
	r.mu.Lock()
	if r.KeepMsg {
		r.msgs = append(r.msgs, append([]byte{}, cb.Msg...))
	}
	if s.b == nil {
		b, ok := r.boxes[id]
		switch {
		case !ok:
			s.failed = status.Error(codes.Unknown, "stream not found")
		case b.writer:
			s.failed = status.Error(codes.Unknown, "write stream occupied")
		}
		if s.failed != nil {
			// like gRPC: this Send is accepted locally, the message is
			// lost, and the following Send fails
			r.logf("send", id, "lost: "+s.failed.Error())
			r.mu.Unlock()
			return nil
		}
		b.writer = true
		s.b = b
		r.logf("sendstream", id, "")
		// release the slot when the stream's context ends
		go func(ctx context.Context) {
			<-ctx.Done()
			r.mu.Lock()
			s.release()
			r.mu.Unlock()
		}(s.ctx)
	}
	b := s.b
	r.mu.Unlock()

	n := s.n
	s.n++
	a := r.fault("send", id, n, len(cb.Msg))
	if a.Fail != nil {
		s.failed = a.Fail
		r.mu.Lock()
		r.logf("send", id, "stream broken: "+a.Fail.Error())
		s.release()
		r.mu.Unlock()
		return a.Fail
	}
	if a.Drop {
		r.mu.Lock()
		r.logf("send", id, "dropped")
		r.mu.Unlock()
		return nil
	}
	msg := append([]byte{}, cb.Msg...)
	if r.Rewrite != nil {
		msg = r.Rewrite(id, n, msg)
	}
	// enqueue, blocking while the box is full
	for {
		r.mu.Lock()
		if b.deleted {
			s.failed = io.EOF
			r.mu.Unlock()
			return io.EOF
		}
		if len(b.q) < r.Cap {
			at := time.Now().Add(a.Delay)
			if at.Before(b.lastAt) {
				at = b.lastAt
			}
			b.lastAt = at
			b.q = append(b.q, qmsg{b: msg, at: at})
			kick(b.wake)
			r.mu.Unlock()
			return nil
		}
		r.mu.Unlock()
		select {
		case <-s.ctx.Done():
			return status.FromContextError(s.ctx.Err()).Err()
		case <-time.After(5 * time.Millisecond):
		}
	}
}

// CloseAndRecv implements HashMail_SendStreamClient.
func (s *sendStream) CloseAndRecv() (*hashmailrpc.CipherBoxDesc, error) {
	_ = s.CloseSend()
	return &hashmailrpc.CipherBoxDesc{}, nil
}

// CloseSend implements grpc.ClientStream.
func (s *sendStream) CloseSend() error {
	s.mu.Lock()
	defer s.mu.Unlock()
	s.closed = true
	s.r.mu.Lock()
	id := ""
	if s.b != nil {
		id = s.b.id
	}
	s.release()
	s.r.mu.Unlock()
	// fault kind "closesend": the stream is gone either way, but the call
	// reports an error (the relay went away first)
	if a := s.r.fault("closesend", id, 0, 0); a.Fail != nil {
		return a.Fail
	}
	return nil
}

// RecvStream implements hashmailrpc.HashMailClient.
func (r *Relay) RecvStream(ctx context.Context, in *hashmailrpc.CipherBoxDesc, _ ...grpc.CallOption) (hashmailrpc.HashMail_RecvStreamClient, error) {
	id := hex.EncodeToString(in.GetStreamId())
	if a := r.fault("recvstream", id, 0, 0); a.Fail != nil {
		return nil, a.Fail
	}
	if err := ctx.Err(); err != nil {
		return nil, status.FromContextError(err).Err()
	}
	return &recvStream{streamStub: streamStub{ctx: ctx}, r: r, id: id, raw: append([]byte{}, in.GetStreamId()...)}, nil
}

type recvStream struct {
	streamStub
	r      *Relay
	id     string
	raw    []byte
	mu     sync.Mutex
	b      *box
	failed error
	n      int
}

func (s *recvStream) release() {
	if s.b != nil && s.b.reader {
		s.b.reader = false
		s.r.logf("recvstream-released", s.id, "")
	}
	s.b = nil
}

// CloseSend implements grpc.ClientStream: on a server-streaming call it does
// not end the RPC.
func (s *recvStream) CloseSend() error {
	// fault kind "closerecv": the call reports an error
	if a := s.r.fault("closerecv", s.id, 0, 0); a.Fail != nil {
		return a.Fail
	}
	return nil
}

// Recv implements HashMail_RecvStreamClient.
func (s *recvStream) Recv() (*hashmailrpc.CipherBox, error) {
	s.mu.Lock()
	defer s.mu.Unlock()
	if s.failed != nil {
		return nil, s.failed
	}
	r := s.r
	// s.b is also cleared by the context watcher below (under r.mu).
	r.mu.Lock()
	if s.b == nil {
		b, ok := r.boxes[s.id]
		switch {
		case !ok:
			s.failed = status.Error(codes.Unknown, "stream not found")
		case b.reader:
			s.failed = status.Error(codes.Unknown, "read stream occupied")
		}
		if s.failed != nil {
			r.logf("recvstream", s.id, "refused: "+s.failed.Error())
			r.mu.Unlock()
			return nil, s.failed
		}
		b.reader = true
		s.b = b
		r.logf("recvstream", s.id, "")
		go func(ctx context.Context) {
			<-ctx.Done()
			r.mu.Lock()
			s.release()
			r.mu.Unlock()
		}(s.ctx)
	}
	b := s.b
	r.mu.Unlock()
	fail := func(err error) (*hashmailrpc.CipherBox, error) {
		s.failed = err
		r.mu.Lock()
		s.release()
		r.mu.Unlock()
		return nil, err
	}
	for {
		if s.ctx.Err() != nil {
			return fail(status.FromContextError(s.ctx.Err()).Err())
		}
		r.mu.Lock()
		if b.deleted {
			r.mu.Unlock()
			return fail(status.Error(codes.Unknown, "EOF"))
		}
		var wait time.Duration = -1
		if len(b.q) > 0 && !r.frozen[s.id] {
			wait = time.Until(b.q[0].at)
			if wait <= 0 {
				m := b.q[0]
				b.q = b.q[1:]
				if len(b.q) > 0 {
					kick(b.wake)
				}
				r.mu.Unlock()
				n := s.n
				s.n++
				if a := r.fault("recv", s.id, n, len(m.b)); a.Fail != nil {
					// the message is lost with the stream
					r.mu.Lock()
					r.logf("recv", s.id, "stream broken: "+a.Fail.Error())
					r.mu.Unlock()
					return fail(a.Fail)
				}
				return &hashmailrpc.CipherBox{Desc: &hashmailrpc.CipherBoxDesc{StreamId: s.raw}, Msg: m.b}, nil
			}
		}
		r.mu.Unlock()
		var tm <-chan time.Time
		if wait > 0 {
			tm = time.After(wait)
		}
		select {
		case <-s.ctx.Done():
		case <-b.wake:
		case <-tm:
		}
	}
}

var _ hashmailrpc.HashMailClient = (*Relay)(nil)

// Restart drops every cipher box, as a relay that lost its in-memory state
// would: open streams fail, and the boxes have to be created again.
func (r *Relay) Restart() {
	r.mu.Lock()
	defer r.mu.Unlock()
	for id, b := range r.boxes {
		b.deleted = true
		kick(b.wake)
		delete(r.boxes, id)
	}
	r.logf("restart", "", "all boxes dropped")
}
