package sim

import (
	"errors"
	"io"
	"sync"
	"time"
)

// ErrPipeClosed is returned by a closed half pipe.
var ErrPipeClosed = errors.New("sim pipe closed")

// pipeState is shared by the two halves of a duplex so that "both parties are
// blocked reading from empty streams" (a dead handshake) can be recognised.
type pipeState struct {
	mu   sync.Mutex
	cond *sync.Cond
}

// Half is one direction of an in-memory byte stream with an adversary in the
// middle. Every Write call of the sender is one "message" that the adversary
// (Hook) may keep, alter, drop, duplicate or replace; the reader sees a plain
// byte stream whose Read calls may additionally be fragmented (ReadMax).
type Half struct {
	st      *pipeState
	peer    *Half // the opposite direction (nil for a stand-alone half)
	buf     []byte
	closed  bool
	waiting bool
	// Hook maps the idx-th written message to the list of byte strings that
	// are actually delivered (nil hook = deliver unchanged).
	Hook func(idx int, p []byte) [][]byte
	// ReadMax, if set, is called for every Read and returns the maximum
	// number of bytes that Read may return (<=0: unlimited).
	ReadMax func() int
	// WriteErr, if set, is consulted for every Write: it returns how many
	// bytes are accepted and the error to return (nil error = accept all).
	WriteErr func(idx int, p []byte) (int, error)
	nWrites  int
	// deadline, if non-zero, makes a Read that finds the stream empty fail
	// with a timeout error once it has passed (SetReadDeadline).
	deadline time.Time
	// Written is the log of what the sender wrote; Delivered of what was
	// put on the reader's stream.
	Written   [][]byte
	Delivered [][]byte
	// Stalled is set when the half was closed because both parties of the
	// duplex were blocked in Read on empty streams.
	Stalled bool
}

// NewHalf creates a stand-alone half pipe.
func NewHalf() *Half {
	st := &pipeState{}
	st.cond = sync.NewCond(&st.mu)
	return &Half{st: st}
}

// Write implements io.Writer for the sending side.
func (h *Half) Write(p []byte) (int, error) {
	h.st.mu.Lock()
	defer h.st.mu.Unlock()
	if h.closed {
		return 0, ErrPipeClosed
	}
	idx := h.nWrites
	h.nWrites++
	acc, werr := len(p), error(nil)
	if h.WriteErr != nil {
		if n, err := h.WriteErr(idx, p); err != nil {
			acc, werr = n, err
		}
	}
	cp := append([]byte{}, p[:acc]...)
	h.Written = append(h.Written, cp)
	out := [][]byte{cp}
	if h.Hook != nil {
		out = h.Hook(idx, cp)
	}
	for _, o := range out {
		h.Delivered = append(h.Delivered, append([]byte{}, o...))
		h.buf = append(h.buf, o...)
	}
	h.st.cond.Broadcast()
	return acc, werr
}

// Inject puts raw bytes on the reader's stream.
func (h *Half) Inject(p []byte) {
	h.st.mu.Lock()
	h.Delivered = append(h.Delivered, append([]byte{}, p...))
	h.buf = append(h.buf, p...)
	h.st.cond.Broadcast()
	h.st.mu.Unlock()
}

// Read implements io.Reader for the receiving side; it blocks while the stream
// is empty and returns io.EOF once the half is closed and drained. If the
// reader of the opposite direction is blocked on an empty stream as well,
// nobody will ever write again: both halves are closed (Stalled).
func (h *Half) Read(p []byte) (int, error) {
	h.st.mu.Lock()
	defer h.st.mu.Unlock()
	for len(h.buf) == 0 {
		if h.closed {
			return 0, io.EOF
		}
		if !h.deadline.IsZero() {
			if !time.Now().Before(h.deadline) {
				return 0, readTimeout{}
			}
			// wait for data, the close or the deadline
			h.waiting = true
			h.st.cond.Wait()
			h.waiting = false
			continue
		}
		if h.peer != nil && h.peer.waiting && h.peer.deadline.IsZero() && len(h.peer.buf) == 0 {
			h.closed, h.peer.closed = true, true
			h.Stalled, h.peer.Stalled = true, true
			h.st.cond.Broadcast()
			return 0, io.EOF
		}
		h.waiting = true
		h.st.cond.Wait()
		h.waiting = false
	}
	n := len(p)
	if h.ReadMax != nil {
		if m := h.ReadMax(); m > 0 && m < n {
			n = m
		}
	}
	if n > len(h.buf) {
		n = len(h.buf)
	}
	copy(p, h.buf[:n])
	h.buf = h.buf[n:]
	return n, nil
}

type readTimeout struct{}

func (readTimeout) Error() string   { return "read: i/o timeout (deadline)" }
func (readTimeout) Timeout() bool   { return true }
func (readTimeout) Temporary() bool { return true }

// SetReadDeadline arms (or, with the zero time, clears) the deadline of Read
// calls that find the stream empty.
func (h *Half) SetReadDeadline(t time.Time) {
	h.st.mu.Lock()
	h.deadline = t
	h.st.cond.Broadcast()
	h.st.mu.Unlock()
	if !t.IsZero() {
		time.AfterFunc(time.Until(t)+time.Millisecond, func() {
			h.st.mu.Lock()
			h.st.cond.Broadcast()
			h.st.mu.Unlock()
		})
	}
}

// Close closes the half: writers fail, readers drain and get io.EOF.
func (h *Half) Close() {
	h.st.mu.Lock()
	h.closed = true
	h.st.cond.Broadcast()
	h.st.mu.Unlock()
}

// Buffered returns the number of undelivered bytes.
func (h *Half) Buffered() int {
	h.st.mu.Lock()
	defer h.st.mu.Unlock()
	return len(h.buf)
}

// Duplex is one endpoint's view of two halves.
type Duplex struct {
	In  *Half
	Out *Half
}

func (d *Duplex) Read(p []byte) (int, error)  { return d.In.Read(p) }
func (d *Duplex) Write(p []byte) (int, error) { return d.Out.Write(p) }

// NewDuplexPair returns the two endpoints (a, b) of a bidirectional pipe and
// its halves (a->b, b->a).
func NewDuplexPair() (a, b *Duplex, a2b, b2a *Half) {
	st := &pipeState{}
	st.cond = sync.NewCond(&st.mu)
	a2b, b2a = &Half{st: st}, &Half{st: st}
	a2b.peer, b2a.peer = b2a, a2b
	return &Duplex{In: b2a, Out: a2b}, &Duplex{In: a2b, Out: b2a}, a2b, b2a
}
