package eng

import (
	"context"
	"fmt"
	"math/rand"
	"net"
	"sync"
	"sync/atomic"
	"time"

	"verifharness/sim"

	"github.com/btcsuite/btcd/btcec/v2"
	"github.com/lightninglabs/lightning-node-connect/mailbox"
	"github.com/lightningnetwork/lnd/keychain"
)

// MboxParty is one side of a mailbox session (the "lnd" side is the server, the
// browser / litcli side is the client).
type MboxParty struct {
	Key      *keychain.PrivKeyECDH
	CD       *mailbox.ConnData
	Noise    *mailbox.NoiseGrpcConn
	Pass     []byte
	mu       sync.Mutex
	RemoteCB []*btcec.PublicKey
	AuthCB   [][]byte
}

// NewMboxParty creates a party; remote is the peer's static key if already
// paired.
func NewMboxParty(key *keychain.PrivKeyECDH, remote *btcec.PublicKey, pass, auth []byte, minV, maxV byte) *MboxParty {
	p := &MboxParty{Key: key, Pass: pass}
	p.CD = mailbox.NewConnData(key, remote, pass, auth,
		func(k *btcec.PublicKey) error {
			p.mu.Lock()
			p.RemoteCB = append(p.RemoteCB, k)
			p.mu.Unlock()
			return nil
		},
		func(d []byte) error {
			p.mu.Lock()
			p.AuthCB = append(p.AuthCB, append([]byte{}, d...))
			p.mu.Unlock()
			return nil
		})
	p.Noise = mailbox.NewNoiseGrpcConn(p.CD, mailbox.WithMinHandshakeVersion(minV), mailbox.WithMaxHandshakeVersion(maxV))
	return p
}

// ConnEvent records a connection handed out by Accept / Dial.
type ConnEvent struct {
	Side      string // "server" / "client"
	N         int    // ordinal per side
	AcquireAt int64  // logical clock
	ReleaseAt int64  // logical clock when Done() closed (0 = still open)
	HSOK      bool   // noise handshake completed on it
	HSErr     string
	Local     string
	Remote    string
}

// MboxSession wires a real mailbox.Server and mailbox.Client to an in-memory
// relay and runs gRPC-like accept / dial drivers on them.
type MboxSession struct {
	Relay  *sim.Relay
	S, C   *MboxParty
	Server *mailbox.Server
	Client *mailbox.Client

	ctx    context.Context
	cancel context.CancelFunc
	clock  atomic.Int64

	mu     sync.Mutex
	Events []*ConnEvent

	// SConns / CConns deliver the secured connections (after the noise
	// handshake) to the application.
	SConns chan net.Conn
	CConns chan net.Conn

	wg sync.WaitGroup
	// MaxDials bounds the client's dial attempts (0 = unlimited).
	MaxDials   int
	Dials      atomic.Int64
	Accepts    atomic.Int64
	// HoldDials, while set, keeps the dial loop from starting its next
	// attempt (a dialer in back-off).
	HoldDials atomic.Bool
	serverStop atomic.Bool

	prevDone map[string]<-chan struct{}
	// ServeEnded is set when the accept loop has ended because Accept
	// returned an error that gRPC does not retry.
	ServeEnded string
	// Overlaps lists connections that were handed out while the previous
	// connection of the same listener / dialer was still open.
	Overlaps []string
}

// Tick returns the next value of the session's logical clock.
func (m *MboxSession) Tick() int64 { return m.clock.Add(1) }

// NewMboxSession creates the relay, the server and the client.
func NewMboxSession(relay *sim.Relay, s, c *MboxParty) (*MboxSession, error) {
	ctx, cancel := context.WithCancel(context.Background())
	m := &MboxSession{Relay: relay, S: s, C: c, ctx: ctx, cancel: cancel,
		SConns: make(chan net.Conn, 16), CConns: make(chan net.Conn, 16)}
	var err error
	m.Server, err = mailbox.VerifNewServer("relay.test:443", s.CD, func(mailbox.ServerStatus) {}, relay)
	if err != nil {
		cancel()
		return nil, err
	}
	m.Client, err = mailbox.NewClient(ctx, "relay.test:443", c.CD, mailbox.VerifWithHashMailClient(relay))
	if err != nil {
		cancel()
		return nil, err
	}
	return m, nil
}

type doner interface{ Done() <-chan struct{} }

func (m *MboxSession) track(side string, n int, conn net.Conn) *ConnEvent {
	ev := &ConnEvent{Side: side, N: n, AcquireAt: m.Tick(), Local: conn.LocalAddr().String(), Remote: conn.RemoteAddr().String()}
	m.mu.Lock()
	m.Events = append(m.Events, ev)
	// mutual exclusion, decided at the moment of the hand-out: the previous
	// connection of this side must already be done
	if m.prevDone == nil {
		m.prevDone = map[string]<-chan struct{}{}
	}
	if pd, ok := m.prevDone[side]; ok {
		select {
		case <-pd:
		default:
			m.Overlaps = append(m.Overlaps, fmt.Sprintf("%s connection #%d was handed out while connection #%d was still open", side, n, n-1))
		}
	}
	if d, ok := conn.(doner); ok {
		m.prevDone[side] = d.Done()
	}
	m.mu.Unlock()
	if d, ok := conn.(doner); ok {
		m.wg.Add(1)
		go func() {
			defer m.wg.Done()
			select {
			case <-d.Done():
				t := m.Tick()
				m.mu.Lock()
				ev.ReleaseAt = t
				m.mu.Unlock()
			case <-m.ctx.Done():
			}
		}()
	}
	return ev
}

// StartServer runs the accept loop: Accept, noise handshake, hand over; a
// connection whose handshake fails is closed and the loop accepts again.
func (m *MboxSession) StartServer() {
	m.wg.Add(1)
	go func() {
		defer m.wg.Done()
		for n := 0; m.ctx.Err() == nil && !m.serverStop.Load(); n++ {
			conn, err := m.Server.Accept()
			if err != nil {
				if m.ctx.Err() != nil || m.serverStop.Load() {
					return
				}
				// grpc.Server.Serve retries only errors that say they
				// are temporary; anything else ends Serve for good
				if te, ok := err.(interface{ Temporary() bool }); !ok || !te.Temporary() {
					m.mu.Lock()
					m.ServeEnded = fmt.Sprintf("Accept returned an error that is not temporary (%T: %v): a gRPC server stops serving on it", err, err)
					m.mu.Unlock()
					return
				}
				select {
				case <-time.After(50 * time.Millisecond):
				case <-m.ctx.Done():
					return
				}
				continue
			}
			m.Accepts.Add(1)
			ev := m.track("server", n, conn)
			// As grpc.Server does: the handshake runs in its own
			// goroutine and Accept is entered again at once.
			m.wg.Add(1)
			go func(conn net.Conn, ev *ConnEvent) {
				defer m.wg.Done()
				nc, _, err := m.S.Noise.ServerHandshake(conn)
				if err != nil {
					m.mu.Lock()
					ev.HSErr = err.Error()
					m.mu.Unlock()
					_ = conn.Close()
					return
				}
				m.mu.Lock()
				ev.HSOK = true
				m.mu.Unlock()
				select {
				case m.SConns <- nc:
				case <-m.ctx.Done():
					_ = nc.Close()
				}
			}(conn, ev)
		}
	}()
}

// StartClient runs the dial loop: Dial, noise handshake, hand over, then wait
// until that connection is done before dialling again (gRPC keeps one
// transport); a failed handshake closes the connection and re-dials.
func (m *MboxSession) StartClient() {
	m.wg.Add(1)
	go func() {
		defer m.wg.Done()
		for n := 0; m.ctx.Err() == nil; n++ {
			if m.MaxDials > 0 && n >= m.MaxDials {
				return
			}
			for m.HoldDials.Load() && m.ctx.Err() == nil {
				time.Sleep(10 * time.Millisecond)
			}
			m.Dials.Add(1)
			// As grpc does (addrConn.createTransport): every connection
			// attempt gets a context of its own, which covers the dial and
			// the credentials handshake and is cancelled as soon as the
			// transport is up (or the attempt has failed). A connection
			// must not depend on it afterwards.
			dialCtx, dialDone := context.WithCancel(m.ctx)
			conn, err := m.Client.Dial(dialCtx, "")
			if err != nil {
				dialDone()
				select {
				case <-time.After(100 * time.Millisecond):
				case <-m.ctx.Done():
					return
				}
				continue
			}
			if m.ctx.Err() != nil {
				dialDone()
				_ = conn.Close()
				return
			}
			ev := m.track("client", n, conn)
			nc, _, err := m.C.Noise.ClientHandshake(dialCtx, "", conn)
			dialDone()
			if err != nil {
				m.mu.Lock()
				ev.HSErr = err.Error()
				m.mu.Unlock()
				_ = conn.Close()
				select {
				case <-time.After(200 * time.Millisecond):
				case <-m.ctx.Done():
					return
				}
				continue
			}
			m.mu.Lock()
			ev.HSOK = true
			m.mu.Unlock()
			select {
			case m.CConns <- nc:
			case <-m.ctx.Done():
				_ = nc.Close()
				return
			}
			// one live transport at a time
			if d, ok := conn.(doner); ok {
				select {
				case <-d.Done():
				case <-m.ctx.Done():
					return
				}
			}
		}
	}()
}

// Stop tears the session down.
func (m *MboxSession) Stop() {
	m.serverStop.Store(true)
	m.cancel()
	done := make(chan struct{})
	go func() {
		_ = m.Server.Close()
		close(done)
	}()
	select {
	case <-done:
	case <-time.After(30 * time.Second):
	}
	// drain handed-out connections
	for {
		select {
		case c := <-m.SConns:
			_ = c.Close()
		case c := <-m.CConns:
			_ = c.Close()
		default:
			goto drained
		}
	}
drained:
	w := make(chan struct{})
	go func() { m.wg.Wait(); close(w) }()
	select {
	case <-w:
	case <-time.After(30 * time.Second):
	}
}

// EventsCopy returns a snapshot of the connection events.
func (m *MboxSession) EventsCopy() []ConnEvent {
	m.mu.Lock()
	defer m.mu.Unlock()
	out := make([]ConnEvent, len(m.Events))
	for i, e := range m.Events {
		out[i] = *e
	}
	return out
}

// StreamWriter writes the deterministic byte stream of a direction in the given
// chunk sizes and returns the number of bytes the connection accepted.
func StreamWriter(conn net.Conn, dir byte, sizes []int) (int, error) {
	total := 0
	off := 0
	for _, sz := range sizes {
		b := StreamBytes(dir, off, sz)
		n, err := conn.Write(b)
		total += n
		off += sz
		if err != nil {
			return total, err
		}
		if n != sz {
			return total, fmt.Errorf("short write %d of %d without error", n, sz)
		}
	}
	return total, nil
}

// StreamBytes returns bytes [off, off+n) of the deterministic stream of a
// direction.
func StreamBytes(dir byte, off, n int) []byte {
	b := make([]byte, n)
	for i := range b {
		x := uint32(off+i)*2654435761 ^ uint32(dir)<<24
		b[i] = byte(x>>24) ^ byte(x>>13) ^ byte(off+i)
	}
	return b
}

// RandSizesStream draws write sizes for a byte stream.
func RandSizesStream(rng *rand.Rand, n, max int) []int {
	special := []int{0, 1, 2, 32767, 32768, 32769, 65534, 65535}
	s := make([]int, n)
	for i := range s {
		switch rng.Intn(4) {
		case 0:
			s[i] = special[rng.Intn(len(special))]
		case 1:
			s[i] = rng.Intn(200)
		default:
			s[i] = rng.Intn(max + 1)
		}
		if s[i] > max {
			s[i] = max
		}
	}
	return s
}
