package eng

import (
	"context"
	"encoding/binary"
	"fmt"
	"math/rand"
	"strings"
	"sync"
	"sync/atomic"
	"testing"
	"testing/synctest"
	"time"

	"verifharness/sim"

	"github.com/lightninglabs/lightning-node-connect/gbn"
)

// FaultSpec is a random per-packet fault process that is active until Until
// (measured from the moment faults are switched on).
type FaultSpec struct {
	Drop     float64
	Dup      float64
	DelayP   float64
	MaxDelay time.Duration
	Until    time.Duration
	Seed     int64
	// DropFirstTx lists message indices (as embedded in bytes 1..4 of a
	// message of >=5 bytes) whose first transmission is dropped regardless
	// of Until: used for tail-loss scenarios.
	DropFirstTx map[uint32]bool
}

func (f FaultSpec) String() string {
	return fmt.Sprintf("drop=%.2f dup=%.2f delayP=%.2f maxDelay=%v until=%v", f.Drop, f.Dup, f.DelayP, f.MaxDelay, f.Until)
}

// Decider builds the link decider for the spec; start is when faults begin.
func (f FaultSpec) Decider(start time.Time) sim.Decider {
	rng := rand.New(rand.NewSource(f.Seed))
	seen := map[uint32]bool{}
	return func(idx int, p sim.Pkt, now time.Time) sim.Decision {
		if f.DropFirstTx != nil && p.Type == sim.TData && !p.Ping && len(p.Payload) >= 5 {
			mi := binary.BigEndian.Uint32(p.Payload[1:5])
			if f.DropFirstTx[mi] && !seen[mi] {
				seen[mi] = true
				return sim.Decision{Drop: true}
			}
		}
		if now.Sub(start) >= f.Until {
			return sim.Decision{}
		}
		var d sim.Decision
		if rng.Float64() < f.Drop {
			d.Drop = true
			return d
		}
		if rng.Float64() < f.Dup {
			d.Dup = 1 + rng.Intn(2)
		}
		if f.MaxDelay > 0 && rng.Float64() < f.DelayP {
			d.Delay = time.Duration(rng.Int63n(int64(f.MaxDelay)))
		}
		return d
	}
}

// Scen is a complete GBN scenario.
type Scen struct {
	Conf     GBNConf
	FaultC2S FaultSpec
	FaultS2C FaultSpec
	// SizesA / SizesB are the message sizes client->server / server->client.
	SizesA, SizesB []int
	// GapsA / GapsB (optional) are sleeps before each Send.
	GapsA, GapsB []time.Duration
	// RecvGapsA / RecvGapsB (optional) are sleeps of the receiving
	// application before each Recv (slow consumer).
	RecvGapsA, RecvGapsB []time.Duration
	Horizon              time.Duration
	// Quiesce is how long to keep observing after both flows completed and
	// both send queues drained; QuiesceWait bounds the wait for the drain.
	Quiesce     time.Duration
	QuiesceWait time.Duration
	// WriteErrC2S / WriteErrS2C > 0: the k-th transport write of the client /
	// the server after the handshake fails once with a transient error (the
	// packet is not sent, the link keeps working).
	WriteErrC2S, WriteErrS2C int
}

// ScenResult is everything observed in a scenario run.
type ScenResult struct {
	Scen       *Scen
	ConnErrC   error
	ConnErrS   error
	A, B       *FlowResult
	LogC2S     []sim.WireEvent
	LogS2C     []sim.WireEvent
	Completed  bool // both flows finished before the horizon
	Elapsed    time.Duration
	FaultStart time.Duration
	StateC     gbn.VerifConnState // at the end of the run (before Close)
	StateS     gbn.VerifConnState
	StateCTf   gbn.VerifConnState // at the end of the fault window
	StateSTf   gbn.VerifConnState
	DoneC      time.Duration // when the client conn closed itself (-1 never)
	DoneS      time.Duration
	Leaked     []Goroutine
	CloseTook  time.Duration
	// QuiesceData is the number of non-ping DATA packets put on the wire
	// during the quiescence observation window.
	// BlockedSendA / BlockedSendB: the direction's sender was inside a Send
	// call when the run ended (before anything was closed).
	BlockedSendA, BlockedSendB bool
	QuiesceData                int
	Drained                    bool // both send queues were seen empty after completion
	QuiesceFrom                time.Duration
	StateCQ                    gbn.VerifConnState // at the start of the quiescence window
	StateSQ                    gbn.VerifConnState
	Panic                      any
}

// Hooks lets a check observe / perturb a scenario.
type Hooks struct {
	// BeforeConnect is called with the pair before the handshake.
	BeforeConnect func(p *Pair)
	// AfterConnect is called (in the scenario's main goroutine) right after
	// both constructors returned, before traffic starts.
	AfterConnect func(ctx context.Context, p *Pair)
	// During runs in its own goroutine while traffic flows.
	During func(ctx context.Context, p *Pair, a, b *FlowResult)
	// BeforeClose is called before the pair is closed.
	BeforeClose func(p *Pair, r *ScenResult)
	// NoClose leaves closing to the hook (BeforeClose must close).
	NoClose bool
	// WaitDuring makes the scenario wait for the During hook to return
	// before it starts closing; the hook's context is cancelled when the
	// flows have completed or the horizon was reached.
	WaitDuring bool
	// OnAccepted is called after a Send of direction dir ('a' client->server,
	// 'b' server->client) returned nil.
	OnAccepted func(dir byte, i int)
	// OnLeak is called inside the bubble when goroutines of the code under
	// test are still alive after everything was closed. The bubble cannot
	// be torn down in that state, so the callback is expected to record
	// the violation and end the process (mon.FlushAndExit).
	OnLeak func(r *ScenResult)
}

func sizeFn(s []int) func(int) int { return func(i int) int { return s[i] } }
func gapFn(g []time.Duration) func(int) time.Duration {
	if g == nil {
		return nil
	}
	return func(i int) time.Duration { return g[i] }
}

// RunScen executes the scenario inside a synctest bubble (virtual time).
func RunScen(t *testing.T, sc *Scen, h Hooks) *ScenResult {
	res := &ScenResult{Scen: sc, DoneC: -1, DoneS: -1}
	synctest.Test(t, func(t *testing.T) {
		runScenBody(sc, h, res, synctest.Wait)
		res.Leaked = Settle()
		if len(res.Leaked) > 0 {
			if h.OnLeak != nil {
				h.OnLeak(res)
			}
			panic(fmt.Sprintf("goroutines of the code under test leaked: %v", res.Leaked[0].Stack))
		}
	})
	return res
}

// RunScenRealTime executes the same scenario on the real clock.
func RunScenRealTime(sc *Scen, h Hooks) *ScenResult {
	res := &ScenResult{Scen: sc, DoneC: -1, DoneS: -1}
	runScenBody(sc, h, res, nil)
	return res
}

func runScenBody(sc *Scen, h Hooks, res *ScenResult, settle func()) {
	ctx, cancel := context.WithCancel(context.Background())
	defer cancel()

	p := NewPair(sc.Conf)
	if h.BeforeConnect != nil {
		h.BeforeConnect(p)
	}
	res.ConnErrC, res.ConnErrS = p.Connect(ctx)
	if res.ConnErrC != nil || res.ConnErrS != nil {
		p.CloseAll()
		return
	}
	t0 := p.T0

	var dmu sync.Mutex
	closing := false
	var watch sync.WaitGroup
	watch.Add(2)
	go func() {
		defer watch.Done()
		select {
		case <-p.C.VerifDone():
			dmu.Lock()
			if !closing {
				res.DoneC = time.Since(t0)
			}
			dmu.Unlock()
		case <-ctx.Done():
		}
	}()
	go func() {
		defer watch.Done()
		select {
		case <-p.S.VerifDone():
			dmu.Lock()
			if !closing {
				res.DoneS = time.Since(t0)
			}
			dmu.Unlock()
		case <-ctx.Done():
		}
	}()

	if h.AfterConnect != nil {
		h.AfterConnect(ctx, p)
	}

	fs := time.Now()
	res.FaultStart = fs.Sub(t0)
	p.C2S.SetDecider(sc.FaultC2S.Decider(fs))
	p.S2C.SetDecider(sc.FaultS2C.Decider(fs))
	if sc.WriteErrC2S > 0 {
		p.C2S.FailSendsAfter(sc.WriteErrC2S-1, 1, fmt.Errorf("write: transient transport error (injected)"))
	}
	if sc.WriteErrS2C > 0 {
		p.S2C.FailSendsAfter(sc.WriteErrS2C-1, 1, fmt.Errorf("write: transient transport error (injected)"))
	}

	var accA, accB func(int)
	if h.OnAccepted != nil {
		accA = func(i int) { h.OnAccepted('a', i) }
		accB = func(i int) { h.OnAccepted('b', i) }
	}
	fa, doneA := RunFlow(p.C, p.S, FlowSpec{Dir: 'a', Count: len(sc.SizesA), Size: sizeFn(sc.SizesA), Gap: gapFn(sc.GapsA), RecvGap: gapFn(sc.RecvGapsA), OnAccepted: accA}, t0)
	fb, doneB := RunFlow(p.S, p.C, FlowSpec{Dir: 'b', Count: len(sc.SizesB), Size: sizeFn(sc.SizesB), Gap: gapFn(sc.GapsB), RecvGap: gapFn(sc.RecvGapsB), OnAccepted: accB}, t0)
	res.A, res.B = fa, fb

	var dwg sync.WaitGroup
	flowCtx, flowCancel := context.WithCancel(ctx)
	defer flowCancel()
	duringDone := make(chan struct{})
	if h.During != nil {
		dwg.Add(1)
		go func() {
			defer dwg.Done()
			defer close(duringDone)
			h.During(flowCtx, p, fa, fb)
		}()
	} else {
		close(duringDone)
	}

	// Sample the timeouts at the end of the fault window.
	tf := sc.FaultC2S.Until
	if sc.FaultS2C.Until > tf {
		tf = sc.FaultS2C.Until
	}
	dwg.Add(1)
	go func() {
		defer dwg.Done()
		select {
		case <-time.After(tf):
			dmu.Lock()
			res.StateCTf, res.StateSTf = p.C.VerifState(), p.S.VerifState()
			dmu.Unlock()
		case <-ctx.Done():
		}
	}()

	horizon := time.NewTimer(sc.Horizon)
	both := make(chan struct{})
	go func() {
		<-doneA
		<-doneB
		close(both)
	}()
	select {
	case <-both:
		res.Completed = true
	case <-horizon.C:
	}
	horizon.Stop()
	flowCancel()
	if h.WaitDuring {
		<-duringDone
	}

	if res.Completed && sc.Quiesce > 0 {
		// Wait for the end of the fault window, then for an instant at
		// which both send queues are empty (everything, keepalive pings
		// included, has been acknowledged), then observe silence.
		if rem := tf - time.Since(fs); rem > 0 {
			time.Sleep(rem)
		}
		open := func() bool {
			select {
			case <-p.C.VerifDone():
				return false
			case <-p.S.VerifDone():
				return false
			default:
				return true
			}
		}
		deadline := time.Now().Add(sc.QuiesceWait)
		for open() {
			if p.C.VerifState().Size == 0 && p.S.VerifState().Size == 0 {
				res.Drained = true
				break
			}
			if time.Now().After(deadline) {
				break
			}
			time.Sleep(50 * time.Millisecond)
		}
		if res.Drained {
			// step past the instant of the last acknowledgement
			time.Sleep(time.Millisecond)
			res.QuiesceFrom = time.Since(t0)
			res.StateCQ, res.StateSQ = p.C.VerifState(), p.S.VerifState()
			time.Sleep(sc.Quiesce)
		}
	}

	// Let everything that happens at this very instant (e.g. a FIN that was
	// just delivered) be processed before the endpoints are inspected.
	if settle != nil {
		settle()
	}
	res.Elapsed = time.Since(t0)
	res.BlockedSendA, res.BlockedSendB = fa.InSend.Load(), fb.InSend.Load()
	res.StateC, res.StateS = p.C.VerifState(), p.S.VerifState()
	if h.BeforeClose != nil {
		h.BeforeClose(p, res)
	}
	dmu.Lock()
	closing = true
	// An endpoint whose quit channel is already closed at this point closed
	// by itself (or was closed by a hook), even if its watcher goroutine has
	// not been scheduled yet.
	if res.DoneC < 0 {
		select {
		case <-p.C.VerifDone():
			res.DoneC = time.Since(t0)
		default:
		}
	}
	if res.DoneS < 0 {
		select {
		case <-p.S.VerifDone():
			res.DoneS = time.Since(t0)
		default:
		}
	}
	dmu.Unlock()
	cs := time.Now()
	if !h.NoClose {
		p.CloseAll()
	}
	res.CloseTook = time.Since(cs)
	cancel()
	<-doneA
	<-doneB
	dwg.Wait()
	watch.Wait()
	res.LogC2S, res.LogS2C = p.C2S.Log(), p.S2C.Log()
	if res.QuiesceFrom > 0 {
		for _, lg := range [][]sim.WireEvent{res.LogC2S, res.LogS2C} {
			for _, e := range lg {
				if e.T >= res.QuiesceFrom && e.Kind != "deliver" && e.P.Type == sim.TData && !e.P.Ping {
					res.QuiesceData++
				}
			}
		}
	}
}

// Settle waits (inside a bubble) until all bubble goroutines are durably
// blocked and then returns the goroutines of gbn / mailbox code still alive.
func Settle() []Goroutine {
	synctest.Wait()
	return LeakedIn("lightning-node-connect/gbn", "lightning-node-connect/mailbox")
}

// AnyFrozen is set when a bubble of this process froze (see RunScenGuarded); the
// worker must then end through mon.FlushAndExit, because a frozen bubble cannot
// be torn down.
var AnyFrozen atomic.Bool

// RunScenGuarded is RunScen under a real-time guard. A bubble whose virtual
// clock cannot advance (some goroutine waits on a mutex or sync.Once whose
// holder needs time to pass, or the code under test has deadlocked) never
// finishes; after `guard` of real time it is abandoned and frozen=true is
// returned. That is not a verdict by itself: see DeadlockProbe.
func RunScenGuarded(t *testing.T, sc *Scen, h Hooks, guard time.Duration) (res *ScenResult, frozen bool) {
	done := make(chan *ScenResult, 1)
	go func() { done <- RunScen(t, sc, h) }()
	select {
	case r := <-done:
		return r, false
	case <-time.After(guard):
		AnyFrozen.Store(true)
		return nil, true
	}
}

// DeadlockProbe runs the scenario on the real clock for at most budget and
// then applies the two-census rule: goroutines that are parked in
// sync.(*Mutex/RWMutex).Lock inside gbn code in two censuses 5 s apart are
// deadlocked (gbn's critical sections are short; nothing legitimately waits
// that long for a lock). It returns their stacks.
func DeadlockProbe(sc *Scen, h Hooks, budget time.Duration) []Goroutine {
	cp := *sc
	if cp.Horizon > budget {
		cp.Horizon = budget
	}
	cp.Quiesce = 0
	go RunScenRealTime(&cp, h)
	time.Sleep(budget)
	stuck := func() map[string]Goroutine {
		m := map[string]Goroutine{}
		for _, g := range Census() {
			if (strings.Contains(g.State, "Mutex.Lock") || strings.Contains(g.State, "RWMutex")) &&
				strings.Contains(g.Stack, "lightning-node-connect/gbn") && g.Bubble == "" {
				m[g.ID] = g
			}
		}
		return m
	}
	a := stuck()
	if len(a) == 0 {
		return nil
	}
	time.Sleep(5 * time.Second)
	b := stuck()
	var out []Goroutine
	for id, g := range b {
		if _, ok := a[id]; ok {
			out = append(out, g)
		}
	}
	return out
}
