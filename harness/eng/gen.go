package eng

import (
	"math/rand"
	"time"
)

// NStrata is the stratified set of window sizes used by quick tiers.
var NStrata = []uint8{1, 2, 3, 4, 5, 20, 127, 128, 253, 254}

// PickN chooses the window size of case idx.
func PickN(tier string, idx int) uint8 {
	if tier == "thorough" {
		return uint8(1 + idx%254)
	}
	return NStrata[idx%len(NStrata)]
}

func pickDur(rng *rand.Rand, ds ...time.Duration) time.Duration {
	return ds[rng.Intn(len(ds))]
}

// RandSizes draws n message sizes: mostly small, some large.
func RandSizes(rng *rand.Rand, n int, allowHuge bool) []int {
	s := make([]int, n)
	for i := range s {
		r := rng.Float64()
		switch {
		case r < 0.05:
			s[i] = 0
		case r < 0.15:
			s[i] = 1 + rng.Intn(4)
		case r < 0.90:
			s[i] = rng.Intn(200)
		case r < 0.985 || !allowHuge:
			s[i] = rng.Intn(4096)
		default:
			s[i] = rng.Intn(65536)
		}
	}
	return s
}

// RandGaps draws bursty inter-send gaps: mostly zero, sometimes an idle gap.
func RandGaps(rng *rand.Rand, n int, maxGap time.Duration) []time.Duration {
	if rng.Intn(3) == 0 {
		return nil
	}
	g := make([]time.Duration, n)
	for i := range g {
		if rng.Intn(40) == 0 {
			g[i] = time.Duration(rng.Int63n(int64(maxGap)))
		}
	}
	return g
}

// RandConf draws endpoint configuration.
func RandConf(rng *rand.Rand, n uint8) GBNConf {
	c := GBNConf{N: n}
	switch rng.Intn(4) {
	case 0:
		c.Static, c.Resend = true, pickDur(rng, time.Second, 2*time.Second, 6*time.Second)
	case 1:
		c.Static, c.Resend = true, pickDur(rng, 300*time.Millisecond, 700*time.Millisecond)
	default:
		// adaptive
		if rng.Intn(2) == 0 {
			c.Mult = 1 + rng.Intn(8)
			c.Freq = 1 + rng.Intn(50)
		}
	}
	switch rng.Intn(5) {
	case 0, 1:
		// keepalive off
	case 2:
		c.PingC, c.PongC, c.PingS, c.PongS = 7*time.Second, 3*time.Second, 5*time.Second, 3*time.Second
	case 3:
		c.PingC, c.PongC, c.PingS, c.PongS = time.Second, time.Second, time.Second, time.Second
	case 4:
		c.PingC, c.PongC, c.PingS, c.PongS = 30*time.Second, 10*time.Second, 20*time.Second, 10*time.Second
	}
	c.Lat = pickDur(rng, 0, time.Millisecond, 5*time.Millisecond, 30*time.Millisecond, 200*time.Millisecond, 450*time.Millisecond)
	switch rng.Intn(10) {
	case 0:
		c.Chunk = 16
	case 1:
		c.Chunk = 100
	case 2:
		c.Chunk = 1000
	}
	if rng.Intn(3) == 0 {
		c.HSTimeout = 2 * time.Second
	}
	// transport calls that are not instantaneous (schedule perturbation)
	if rng.Intn(4) == 0 {
		c.JitterMax = pickDur(rng, time.Nanosecond, time.Microsecond, 200*time.Microsecond)
		c.JitterSeed = rng.Int63()
	}
	return c
}

// RandFault draws a fault process.
func RandFault(rng *rand.Rand, resend time.Duration) FaultSpec {
	f := FaultSpec{Seed: rng.Int63()}
	switch rng.Intn(6) {
	case 0:
		// clean direction
		f.Until = 0
		return f
	case 1:
		f.Drop = 0.02
	case 2:
		f.Drop = rng.Float64() * 0.5
	case 3:
		f.Dup = rng.Float64() * 0.5
	default:
		f.Drop = rng.Float64() * 0.3
		f.Dup = rng.Float64() * 0.3
	}
	if rng.Intn(2) == 0 {
		f.DelayP = rng.Float64() * 0.3
		f.MaxDelay = time.Duration(rng.Int63n(int64(3*resend))) + time.Millisecond
	}
	f.Until = time.Duration(5+rng.Intn(116)) * time.Second
	return f
}

// RandScen draws a complete scenario for case idx.
func RandScen(rng *rand.Rand, tier string, idx int) *Scen {
	n := PickN(tier, idx)
	conf := RandConf(rng, n)
	s := int(n) + 1
	resend := conf.Resend
	if resend == 0 {
		resend = time.Second
	}
	sc := &Scen{Conf: conf}
	cntA := 3*s + rng.Intn(60)
	cntB := 3*s + rng.Intn(60)
	switch rng.Intn(5) {
	case 0:
		cntB = 0
	case 1:
		cntA = 0
	}
	huge := n <= 20
	sc.SizesA = RandSizes(rng, cntA, huge)
	sc.SizesB = RandSizes(rng, cntB, huge)
	sc.GapsA = RandGaps(rng, cntA, 20*time.Second)
	sc.GapsB = RandGaps(rng, cntB, 20*time.Second)
	// slow consumers: the receiving application pauses now and then, so
	// the receive buffer (N slots) fills up
	if rng.Intn(3) == 0 {
		sc.RecvGapsA = RandGaps(rng, cntA, 5*time.Second)
	}
	if rng.Intn(3) == 0 {
		sc.RecvGapsB = RandGaps(rng, cntB, 5*time.Second)
	}
	sc.FaultC2S = RandFault(rng, resend)
	sc.FaultS2C = RandFault(rng, resend)
	sc.Horizon = 3 * time.Hour
	return sc
}
