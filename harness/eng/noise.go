package eng

import (
	"fmt"
	"math/rand"
	"sync"

	"verifharness/sim"

	"github.com/btcsuite/btcd/btcec/v2"
	"github.com/lightninglabs/lightning-node-connect/mailbox"
	"github.com/lightningnetwork/lnd/keychain"
)

// NewKey derives a static key from the PRNG.
func NewKey(rng *rand.Rand) *keychain.PrivKeyECDH {
	var b [32]byte
	for {
		rng.Read(b[:])
		priv, _ := btcec.PrivKeyFromBytes(b[:])
		if priv != nil && !priv.Key.IsZero() {
			return &keychain.PrivKeyECDH{PrivKey: priv}
		}
	}
}

// NoiseSide is one party of a handshake.
type NoiseSide struct {
	Key      *keychain.PrivKeyECDH
	CD       *mailbox.ConnData
	M        *mailbox.Machine
	NewErr   error // error of NewBrontideMachine
	Err      error // error of DoHandshake
	Done     bool  // DoHandshake returned
	AuthCB   []byte
	AuthCBn  int
	RemoteCB *btcec.PublicKey
	// FailRemoteCB makes the next calls of the remote-key callback fail.
	FailRemoteCB int
	RemoteN      int
	// FailAuthCB makes the next calls of the auth-data callback fail.
	FailAuthCB int
}

// HSConfig describes a handshake experiment.
type HSConfig struct {
	KK                     bool
	CMin, CMax, SMin, SMax byte
	PassC, PassS           []byte
	Auth                   []byte
	KeyC, KeyS             *keychain.PrivKeyECDH
	// KeyCOverride, if set, is used as the initiator's static key instead
	// of KeyC (e.g. an impostor whose PubKey() is not backed by its ECDH).
	KeyCOverride keychain.SingleKeyECDH
	// In KK mode: the remote static key each side believes the other has
	// (nil = the true one).
	CExpect, SExpect *btcec.PublicKey
	// Hooks of the adversary on each direction (client->server,
	// server->client) and read fragmentation.
	HookC2S, HookS2C   func(idx int, p []byte) [][]byte
	ReadMaxC, ReadMaxS func() int
	// StaleRemoteC / StaleRemoteS (passphrase pattern only): that party's
	// ConnData already holds a remote static key while its Machine is built
	// for the passphrase pattern - the state of a party whose ConnData was
	// paired by another handshake between its pattern lookup and the
	// construction of the Machine. The passphrase pattern must behave as
	// always: both fields of BrontideMachineConfig are inputs.
	StaleRemoteC, StaleRemoteS *btcec.PublicKey
	// FailRemoteCBC / FailRemoteCBS: how often the remote-key callback of
	// the client / server fails (the application could not persist the key).
	FailRemoteCBC, FailRemoteCBS int
	// FailAuthCBC: how often the initiator's auth-data callback fails (the
	// application could not persist the auth payload).
	FailAuthCBC int
	// WriteErrC2S / WriteErrS2C: transport write faults (sim.Half.WriteErr)
	// on what the initiator / the responder writes.
	WriteErrC2S, WriteErrS2C func(idx int, p []byte) (int, error)
	// ReuseC / ReuseS: use this party (its ConnData, with whatever an earlier
	// handshake stored in it) instead of a fresh one; the handshake pattern
	// is then the one its ConnData asks for.
	ReuseC, ReuseS *NoiseSide
	// EphSeed, if non-zero, makes both machines draw their ephemeral keys
	// from a PRNG seeded with it, so that a session can be reproduced
	// bit for bit.
	EphSeed int64
	// HostileAct2, if set, makes the responder (which holds the right
	// secret) write an act two whose payload part is the given one instead
	// of a well-formed one (hook VerifDoHandshakeHostileAct2).
	HostileAct2 *mailbox.VerifHostileAct2
}

// HSResult is the outcome of a handshake experiment.
type HSResult struct {
	C, S     *NoiseSide
	C2S, S2C *sim.Half
}

func newSide(key keychain.SingleKeyECDH, remote *btcec.PublicKey, pass, auth []byte) *NoiseSide {
	s := &NoiseSide{}
	if k, ok := key.(*keychain.PrivKeyECDH); ok {
		s.Key = k
	}
	s.CD = mailbox.NewConnData(key, remote, pass, auth,
		func(k *btcec.PublicKey) error {
			if s.FailRemoteCB > 0 {
				s.FailRemoteCB--
				return fmt.Errorf("remote key could not be persisted (injected)")
			}
			s.RemoteCB = k
			s.RemoteN++
			return nil
		},
		func(d []byte) error {
			if s.FailAuthCB > 0 {
				s.FailAuthCB--
				return fmt.Errorf("auth data could not be persisted (injected)")
			}
			s.AuthCB = append([]byte{}, d...)
			s.AuthCBn++
			return nil
		},
	)
	return s
}

// RunHandshake performs one real handshake between two Machines over an
// in-memory duplex with the configured adversary.
func RunHandshake(cfg HSConfig) *HSResult {
	var remC, remS *btcec.PublicKey
	if cfg.KK {
		remC, remS = cfg.KeyS.PubKey(), cfg.KeyC.PubKey()
		if cfg.CExpect != nil {
			remC = cfg.CExpect
		}
		if cfg.SExpect != nil {
			remS = cfg.SExpect
		}
	}
	var ckey keychain.SingleKeyECDH = cfg.KeyC
	if cfg.KeyCOverride != nil {
		ckey = cfg.KeyCOverride
	}
	patC, patS := mailbox.HandshakePattern{}, mailbox.HandshakePattern{}
	forceC, forceS := false, false
	if !cfg.KK && cfg.StaleRemoteC != nil {
		remC, patC, forceC = cfg.StaleRemoteC, mailbox.XXPattern, true
	}
	if !cfg.KK && cfg.StaleRemoteS != nil {
		remS, patS, forceS = cfg.StaleRemoteS, mailbox.XXPattern, true
	}
	c := newSide(ckey, remC, cfg.PassC, nil)
	s := newSide(cfg.KeyS, remS, cfg.PassS, cfg.Auth)
	if cfg.ReuseC != nil {
		c = cfg.ReuseC
		c.M, c.NewErr, c.Err, c.Done = nil, nil, nil, false
		c.AuthCB, c.AuthCBn, c.RemoteCB, c.RemoteN = nil, 0, nil, 0 // per-handshake counters
	}
	if cfg.ReuseS != nil {
		s = cfg.ReuseS
		s.M, s.NewErr, s.Err, s.Done = nil, nil, nil, false
		s.AuthCB, s.AuthCBn, s.RemoteCB, s.RemoteN = nil, 0, nil, 0
	}
	res := &HSResult{C: c, S: s}
	c.FailRemoteCB, s.FailRemoteCB = cfg.FailRemoteCBC, cfg.FailRemoteCBS
	c.FailAuthCB = cfg.FailAuthCBC
	if !forceC {
		patC = c.CD.HandshakePattern()
	}
	if !forceS {
		patS = s.CD.HandshakePattern()
	}

	var ephC, ephS func() (*btcec.PrivateKey, error)
	if cfg.EphSeed != 0 {
		rc := rand.New(rand.NewSource(cfg.EphSeed))
		rs := rand.New(rand.NewSource(cfg.EphSeed + 1))
		ephC = func() (*btcec.PrivateKey, error) { return NewKey(rc).PrivKey, nil }
		ephS = func() (*btcec.PrivateKey, error) { return NewKey(rs).PrivKey, nil }
	}
	c.M, c.NewErr = mailbox.NewBrontideMachine(&mailbox.BrontideMachineConfig{
		Initiator: true, HandshakePattern: patC, ConnData: c.CD,
		MinHandshakeVersion: cfg.CMin, MaxHandshakeVersion: cfg.CMax, EphemeralGen: ephC,
	})
	s.M, s.NewErr = mailbox.NewBrontideMachine(&mailbox.BrontideMachineConfig{
		Initiator: false, HandshakePattern: patS, ConnData: s.CD,
		MinHandshakeVersion: cfg.SMin, MaxHandshakeVersion: cfg.SMax, EphemeralGen: ephS,
	})
	if c.NewErr != nil || s.NewErr != nil {
		return res
	}
	a, b, a2b, b2a := sim.NewDuplexPair()
	a2b.Hook, b2a.Hook = cfg.HookC2S, cfg.HookS2C
	a2b.WriteErr, b2a.WriteErr = cfg.WriteErrC2S, cfg.WriteErrS2C
	// the client reads from b2a, the server from a2b
	b2a.ReadMax, a2b.ReadMax = cfg.ReadMaxC, cfg.ReadMaxS
	res.C2S, res.S2C = a2b, b2a

	var wg sync.WaitGroup
	wg.Add(2)
	go func() {
		defer wg.Done()
		c.Err = c.M.DoHandshake(a)
		c.Done = true
		// a party that has returned writes nothing more
		a2b.Close()
		if c.Err != nil {
			b2a.Close()
		}
	}()
	go func() {
		defer wg.Done()
		if cfg.HostileAct2 != nil {
			s.Err = s.M.VerifDoHandshakeHostileAct2(b, cfg.HostileAct2)
		} else {
			s.Err = s.M.DoHandshake(b)
		}
		s.Done = true
		b2a.Close()
		if s.Err != nil {
			a2b.Close()
		}
	}()
	wg.Wait()
	return res
}

// OK reports whether both sides completed.
func (r *HSResult) OK() bool {
	return r.C.NewErr == nil && r.S.NewErr == nil && r.C.Done && r.S.Done && r.C.Err == nil && r.S.Err == nil
}

// Entropy draws a 14-byte passphrase entropy.
func Entropy(rng *rand.Rand) []byte {
	b := make([]byte, mailbox.NumPassphraseEntropyBytes)
	rng.Read(b)
	return b
}

// Session runs a clean handshake (XX with a shared passphrase, or KK with the
// true keys) and returns both machines.
func Session(rng *rand.Rand, kk bool, auth []byte) *HSResult {
	pass := Entropy(rng)
	cfg := HSConfig{KK: kk, CMin: 0, CMax: 2, SMin: 0, SMax: 2, PassC: pass, PassS: pass,
		Auth: auth, KeyC: NewKey(rng), KeyS: NewKey(rng)}
	if kk {
		cfg.CMin, cfg.SMin = 2, 2
	}
	return RunHandshake(cfg)
}

type recWriter struct{ chunks [][]byte }

func (w *recWriter) Write(p []byte) (int, error) {
	w.chunks = append(w.chunks, append([]byte{}, p...))
	return len(p), nil
}

// Record is one encrypted record as it appears on the wire.
type Record struct {
	Header []byte // 18 bytes
	Body   []byte // len(plaintext)+16 bytes
	Plain  []byte
}

// Bytes returns header||body.
func (r Record) Bytes() []byte { return append(append([]byte{}, r.Header...), r.Body...) }

// WriteRecords encrypts the plaintexts with the machine's send cipher and
// returns the wire records.
func WriteRecords(m *mailbox.Machine, plains [][]byte) ([]Record, error) {
	var out []Record
	for _, p := range plains {
		if err := m.WriteMessage(p); err != nil {
			return out, err
		}
		w := &recWriter{}
		if _, err := m.Flush(w); err != nil {
			return out, err
		}
		if len(w.chunks) != 2 {
			return out, fmt.Errorf("flush produced %d writes, expected header and body", len(w.chunks))
		}
		out = append(out, Record{Header: w.chunks[0], Body: w.chunks[1], Plain: append([]byte{}, p...)})
	}
	return out, nil
}

// Impostor is a static key whose public half is somebody else's: PubKey()
// returns Claimed, ECDH is computed with Own.
type Impostor struct {
	Claimed *btcec.PublicKey
	Own     *keychain.PrivKeyECDH
}

func (i *Impostor) PubKey() *btcec.PublicKey { return i.Claimed }
func (i *Impostor) ECDH(pub *btcec.PublicKey) ([32]byte, error) {
	return i.Own.ECDH(pub)
}

// FlakySigner fails its ECDH operation when Fail is set.
type FlakySigner struct {
	*keychain.PrivKeyECDH
	Fail bool
}

func (f *FlakySigner) ECDH(pub *btcec.PublicKey) ([32]byte, error) {
	if f.Fail {
		return [32]byte{}, fmt.Errorf("signer unavailable (injected)")
	}
	return f.PrivKeyECDH.ECDH(pub)
}

// RunPipelined performs a clean handshake in which the party that sends the
// last act writes its first record right behind it, and the adversary-free
// transport delivers the last act and the record's header in one chunk. It
// returns what the other party read as its first record.
func RunPipelined(cfg HSConfig, plain []byte, readMax func() int) (hsErrC, hsErrS error, got []byte, readErr error) {
	var remC, remS *btcec.PublicKey
	if cfg.KK {
		remC, remS = cfg.KeyS.PubKey(), cfg.KeyC.PubKey()
	}
	c := newSide(cfg.KeyC, remC, cfg.PassC, nil)
	s := newSide(cfg.KeyS, remS, cfg.PassS, cfg.Auth)
	var err error
	c.M, err = mailbox.NewBrontideMachine(&mailbox.BrontideMachineConfig{Initiator: true, HandshakePattern: c.CD.HandshakePattern(), ConnData: c.CD, MinHandshakeVersion: cfg.CMin, MaxHandshakeVersion: cfg.CMax})
	if err != nil {
		return err, nil, nil, nil
	}
	s.M, err = mailbox.NewBrontideMachine(&mailbox.BrontideMachineConfig{Initiator: false, HandshakePattern: s.CD.HandshakePattern(), ConnData: s.CD, MinHandshakeVersion: cfg.SMin, MaxHandshakeVersion: cfg.SMax})
	if err != nil {
		return nil, err, nil, nil
	}
	a, b, a2b, b2a := sim.NewDuplexPair()
	// the writer of the last act: the initiator in XX (act 3 = its 2nd
	// message), the responder in KK (act 2 = its 1st message)
	lastIdx, lastHalf, readerHalf := 1, a2b, a2b
	writer, reader, wconn, rconn := c.M, s.M, a, b
	if cfg.KK {
		lastIdx, lastHalf, readerHalf = 0, b2a, b2a
		writer, reader, wconn, rconn = s.M, c.M, b, a
	}
	var held []byte
	lastHalf.Hook = func(idx int, p []byte) [][]byte {
		switch {
		case idx == lastIdx:
			held = p
			return nil
		case idx == lastIdx+1:
			return [][]byte{append(append([]byte{}, held...), p...)}
		}
		return [][]byte{p}
	}
	readerHalf.ReadMax = readMax
	var wg sync.WaitGroup
	wg.Add(2)
	var werr, rerr error
	go func() { // the party that writes the last act, then a record at once
		defer wg.Done()
		werr = writer.DoHandshake(wconn)
		if werr == nil {
			if werr = writer.WriteMessage(plain); werr == nil {
				_, werr = writer.Flush(wconn)
			}
		}
		// nothing more will be written on this direction
		lastHalf.Close()
		if werr != nil {
			a2b.Close()
			b2a.Close()
		}
	}()
	go func() {
		defer wg.Done()
		rerr = reader.DoHandshake(rconn)
		if rerr == nil {
			got, readErr = reader.ReadMessage(rconn)
		}
		a2b.Close()
		b2a.Close()
	}()
	wg.Wait()
	if cfg.KK {
		return rerr, werr, got, readErr
	}
	return werr, rerr, got, readErr
}
