// Package eng contains the scenario engines that drive the real code.
package eng

import (
	"context"
	"encoding/binary"
	"fmt"
	"hash/fnv"
	"regexp"
	"runtime"
	"strings"
	"sync"
	"sync/atomic"
	"time"

	"verifharness/sim"

	"github.com/lightninglabs/lightning-node-connect/gbn"
)

// GBNConf describes the two endpoints and the link of a GBN scenario.
type GBNConf struct {
	N         uint8
	Static    bool          // static resend timeout
	Resend    time.Duration // static resend timeout value
	HSTimeout time.Duration // 0 = default
	Mult      int           // resend multiplier (0 = default)
	Freq      int           // timeout update frequency (0 = default)
	Boost     float32       // 0 = default
	PingC     time.Duration // client ping (0 = keepalive off)
	PongC     time.Duration
	PingS     time.Duration
	PongS     time.Duration
	Chunk     int // max chunk size, 0 = off
	// ChunkSrvSet gives the server its own maximum chunk size ChunkSrv (0 =
	// off): the option is local to the sending side, the two ends need not
	// agree on it.
	ChunkSrvSet bool
	ChunkSrv    int
	Lat         time.Duration // one-way base latency
	// JitterMax > 0: a third of the transport calls of both links take a
	// PRNG-chosen time up to JitterMax (seeded with JitterSeed).
	JitterMax  time.Duration
	JitterSeed int64
}

func (c GBNConf) String() string {
	chunk := fmt.Sprint(c.Chunk)
	if c.ChunkSrvSet {
		chunk = fmt.Sprintf("%d/%d", c.Chunk, c.ChunkSrv)
	}
	jit := ""
	if c.JitterMax > 0 {
		jit = fmt.Sprintf(" jitter<=%v", c.JitterMax)
	}
	return fmt.Sprintf("N=%d static=%v resend=%v hs=%v mult=%d freq=%d boost=%.2f ping=%v/%v,%v/%v chunk=%s lat=%v%s",
		c.N, c.Static, c.Resend, c.HSTimeout, c.Mult, c.Freq, c.Boost,
		c.PingC, c.PongC, c.PingS, c.PongS, chunk, c.Lat, jit)
}

func (c GBNConf) opts(ping, pong time.Duration, chunk int) []gbn.Option {
	var to []gbn.TimeoutOptions
	if c.Static {
		to = append(to, gbn.WithStaticResendTimeout(c.Resend))
	}
	if c.HSTimeout > 0 {
		to = append(to, gbn.WithHandshakeTimeout(c.HSTimeout))
	}
	if c.Mult > 0 {
		to = append(to, gbn.WithResendMultiplier(c.Mult))
	}
	if c.Freq > 0 {
		to = append(to, gbn.WithTimeoutUpdateFrequency(c.Freq))
	}
	if c.Boost > 0 {
		to = append(to, gbn.WithBoostPercent(c.Boost))
	}
	if ping > 0 {
		to = append(to, gbn.WithKeepalivePing(ping, pong))
	}
	o := []gbn.Option{gbn.WithTimeoutOptions(to...)}
	if chunk > 0 {
		o = append(o, gbn.WithMaxSendSize(chunk))
	}
	return o
}

// ClientOpts returns the gbn options of the client endpoint.
func (c GBNConf) ClientOpts() []gbn.Option { return c.opts(c.PingC, c.PongC, c.Chunk) }

// ServerOpts returns the gbn options of the server endpoint.
func (c GBNConf) ServerOpts() []gbn.Option {
	if c.ChunkSrvSet {
		return c.opts(c.PingS, c.PongS, c.ChunkSrv)
	}
	return c.opts(c.PingS, c.PongS, c.Chunk)
}

// Pair is a connected client/server pair over two links.
type Pair struct {
	Conf GBNConf
	C, S *gbn.GoBackNConn
	C2S  *sim.Link
	S2C  *sim.Link
	T0   time.Time

	cPtr, sPtr atomic.Pointer[gbn.GoBackNConn]
}

// Client returns the client conn once constructed (nil before).
func (p *Pair) Client() *gbn.GoBackNConn { return p.cPtr.Load() }

// Server returns the server conn once constructed (nil before).
func (p *Pair) Server() *gbn.GoBackNConn { return p.sPtr.Load() }

// NewPair creates the links of a pair without connecting.
func NewPair(conf GBNConf) *Pair {
	p := &Pair{
		Conf: conf,
		C2S:  sim.NewLink("c2s", conf.Lat),
		S2C:  sim.NewLink("s2c", conf.Lat),
		T0:   time.Now(),
	}
	if conf.JitterMax > 0 {
		p.C2S.SetJitter(conf.JitterSeed, 1.0/3, conf.JitterMax)
		p.S2C.SetJitter(conf.JitterSeed+1, 1.0/3, conf.JitterMax)
	}
	return p
}

// Connect runs both constructors (the GBN handshake) concurrently and waits
// for both.
func (p *Pair) Connect(ctx context.Context) (error, error) {
	var (
		wg         sync.WaitGroup
		cerr, serr error
	)
	wg.Add(2)
	go func() {
		defer wg.Done()
		s, err := gbn.NewServerConn(ctx, p.S2C.Send, p.C2S.Recv, p.Conf.ServerOpts()...)
		serr = err
		if err == nil {
			p.S = s
			p.sPtr.Store(s)
		}
	}()
	go func() {
		defer wg.Done()
		c, err := gbn.NewClientConn(ctx, p.Conf.N, p.C2S.Send, p.S2C.Recv, p.Conf.ClientOpts()...)
		cerr = err
		if err == nil {
			p.C = c
			p.cPtr.Store(c)
		}
	}()
	wg.Wait()
	return cerr, serr
}

// CloseAll closes both endpoints and the links.
func (p *Pair) CloseAll() {
	var wg sync.WaitGroup
	for _, c := range []*gbn.GoBackNConn{p.C, p.S} {
		if c == nil {
			continue
		}
		wg.Add(1)
		go func(c *gbn.GoBackNConn) {
			defer wg.Done()
			_ = c.Close()
		}(c)
	}
	wg.Wait()
	p.C2S.Close()
	p.S2C.Close()
}

// MsgBytes deterministically generates the i-th message of a direction.
func MsgBytes(dir byte, i int, size int) []byte {
	b := make([]byte, size)
	if size == 0 {
		return b
	}
	x := uint64(dir)<<56 ^ uint64(i)*0x9E3779B97F4A7C15 ^ 0xD1B54A32D192ED03
	var w [8]byte
	for off := 0; off < size; off += 8 {
		x ^= x << 13
		x ^= x >> 7
		x ^= x << 17
		binary.LittleEndian.PutUint64(w[:], x)
		copy(b[off:], w[:])
	}
	// Make neighbours differ even for one-byte messages.
	b[0] = byte(i*131 + int(dir))
	if size >= 5 {
		binary.BigEndian.PutUint32(b[1:5], uint32(i))
	}
	return b
}

// FlowSpec describes the traffic of one direction.
type FlowSpec struct {
	Dir   byte
	Count int
	Size  func(i int) int
	// Gap is slept before the i-th Send (nil = none).
	Gap func(i int) time.Duration
	// RecvGap is slept before the i-th Recv (nil = none): a slow consumer.
	RecvGap func(i int) time.Duration
	// OnAccepted, if set, is called right after the i-th Send returned nil.
	OnAccepted func(i int)
}

// RecvRec is one message returned by Recv.
type RecvRec struct {
	T   time.Duration
	Len int
	OK  bool // equals the expected i-th message
	// Match is the index of the sent message it equals, -1 if none.
	Match int
}

// FlowResult is what was observed for one direction.
type FlowResult struct {
	Spec      FlowSpec
	Accepted  int // Sends that returned nil
	SendErr   error
	SendErrAt int // index of the Send that failed (-1 none)
	SendErrT  time.Duration
	SendTimes []time.Duration // return time of each accepted Send
	Recv      []RecvRec
	RecvErr   error
	RecvErrT  time.Duration
	LastRecvT time.Duration
	// SenderDone / ReceiverDone are set when the respective application
	// goroutine has returned from its last call.
	SenderDone   atomic.Bool
	ReceiverDone atomic.Bool
	// InSend / InRecv are true while the application goroutine is inside
	// the respective call.
	InSend atomic.Bool
	InRecv atomic.Bool
	mu     sync.Mutex
}

// Delivered returns the number of messages received so far.
func (f *FlowResult) Delivered() int {
	f.mu.Lock()
	defer f.mu.Unlock()
	return len(f.Recv)
}

// Snapshot returns accepted / delivered / lastRecvT.
func (f *FlowResult) Snapshot() (int, int, time.Duration) {
	f.mu.Lock()
	defer f.mu.Unlock()
	return f.Accepted, len(f.Recv), f.LastRecvT
}

// RunFlow drives one direction: a sender goroutine on `from` and a receiver
// goroutine on `to`. The returned channel is closed when both have finished.
func RunFlow(from, to *gbn.GoBackNConn, spec FlowSpec, t0 time.Time) (*FlowResult, <-chan struct{}) {
	res := &FlowResult{Spec: spec, SendErrAt: -1}
	done := make(chan struct{})
	var wg sync.WaitGroup
	wg.Add(2)
	go func() {
		defer wg.Done()
		defer res.SenderDone.Store(true)
		for i := 0; i < spec.Count; i++ {
			if spec.Gap != nil {
				if g := spec.Gap(i); g > 0 {
					time.Sleep(g)
				}
			}
			res.InSend.Store(true)
			err := from.Send(MsgBytes(spec.Dir, i, spec.Size(i)))
			res.InSend.Store(false)
			res.mu.Lock()
			if err != nil {
				res.SendErr, res.SendErrAt = err, i
				res.SendErrT = time.Since(t0)
				res.mu.Unlock()
				return
			}
			res.Accepted++
			res.SendTimes = append(res.SendTimes, time.Since(t0))
			res.mu.Unlock()
			if spec.OnAccepted != nil {
				spec.OnAccepted(i)
			}
		}
	}()
	go func() {
		defer wg.Done()
		defer res.ReceiverDone.Store(true)
		var prev []byte
		for i := 0; i < spec.Count; i++ {
			if spec.RecvGap != nil {
				if g := spec.RecvGap(i); g > 0 {
					time.Sleep(g)
				}
			}
			res.InRecv.Store(true)
			b, err := to.Recv()
			res.InRecv.Store(false)
			now := time.Since(t0)
			res.mu.Lock()
			if err != nil {
				res.RecvErr, res.RecvErrT = err, now
				res.mu.Unlock()
				return
			}
			// The previous result must still hold what it held when it
			// was returned (the application owns it).
			if i > 0 && len(res.Recv) == i && res.Recv[i-1].OK &&
				string(prev) != string(MsgBytes(spec.Dir, i-1, spec.Size(i-1))) {
				res.Recv[i-1].OK = false
				res.Recv[i-1].Match = -2
			}
			prev = b
			exp := MsgBytes(spec.Dir, i, spec.Size(i))
			rec := RecvRec{T: now, Len: len(b), OK: string(b) == string(exp), Match: i}
			if !rec.OK {
				rec.Match = -1
				lo, hi := i-300, i+300
				if lo < 0 {
					lo = 0
				}
				if hi > spec.Count {
					hi = spec.Count
				}
				for j := lo; j < hi; j++ {
					if spec.Size(j) == len(b) && string(MsgBytes(spec.Dir, j, len(b))) == string(b) {
						rec.Match = j
						break
					}
				}
			}
			res.Recv = append(res.Recv, rec)
			res.LastRecvT = now
			res.mu.Unlock()
		}
	}()
	go func() {
		wg.Wait()
		close(done)
	}()
	return res, done
}

// PrefixVerdict applies the C01 oracle to a flow: the received sequence must be
// a prefix of the accepted sequence (a failed Send stays open and may appear as
// the single last element).
func PrefixVerdict(f *FlowResult) (ok bool, what string) {
	f.mu.Lock()
	defer f.mu.Unlock()
	limit := f.Accepted
	if f.SendErrAt >= 0 {
		limit++ // the open Send may have taken effect
	}
	for i, r := range f.Recv {
		if !r.OK {
			kind := "altered/unknown bytes"
			switch {
			case r.Match == -2:
				kind = "the returned slice was overwritten by a later Recv (aliases connection-internal memory)"
			case r.Match >= 0 && r.Match < i:
				kind = fmt.Sprintf("duplicate or reordered (equals sent #%d)", r.Match)
			case r.Match > i:
				kind = fmt.Sprintf("gap: sent #%d..#%d lost (equals sent #%d)", i, r.Match-1, r.Match)
			}
			return false, fmt.Sprintf("dir %c: Recv #%d (len %d at %v) is not sent #%d: %s",
				f.Spec.Dir, i, r.Len, r.T, i, kind)
		}
		if i >= limit {
			return false, fmt.Sprintf("dir %c: Recv #%d returned a message whose Send was never accepted (accepted=%d)",
				f.Spec.Dir, i, f.Accepted)
		}
	}
	return true, ""
}

// TraceSig hashes the wire logs of both links into a signature; faults is the
// number of drop / dup / delayed decisions seen.
func TraceSig(logs ...[]sim.WireEvent) (sig string, faults int) {
	h := fnv.New64a()
	for li, lg := range logs {
		for _, e := range lg {
			if e.Kind == "deliver" {
				continue
			}
			if e.Kind == "drop" || e.Dup > 0 {
				faults++
			}
			fmt.Fprintf(h, "%d%s%d.%d.%d|", li, e.Kind[:2], e.P.Type, e.P.Seq, e.Dup)
		}
	}
	return fmt.Sprintf("%016x", h.Sum64()), faults
}

var (
	goHdr    = regexp.MustCompile(`(?m)^goroutine (\d+) \[([^\]]*)\]:`)
	bubbleRe = regexp.MustCompile(`synctest bubble (\d+)`)
)

// Goroutine is one parsed goroutine of a dump.
type Goroutine struct {
	ID     string
	State  string
	Bubble string
	Stack  string
}

// Census returns all goroutines of the process, parsed.
func Census() []Goroutine {
	buf := make([]byte, 1<<20)
	for {
		n := runtime.Stack(buf, true)
		if n < len(buf) {
			buf = buf[:n]
			break
		}
		buf = make([]byte, 2*len(buf))
	}
	var out []Goroutine
	for _, blk := range strings.Split(string(buf), "\n\n") {
		m := goHdr.FindStringSubmatch(blk)
		if m == nil {
			continue
		}
		g := Goroutine{ID: m[1], State: m[2], Stack: blk}
		if b := bubbleRe.FindStringSubmatch(m[2]); b != nil {
			g.Bubble = b[1]
		}
		out = append(out, g)
	}
	return out
}

// LeakedIn returns the goroutines of the caller's bubble (or of the whole
// process when not in a bubble) that are executing or were created by code of
// the given package path fragments, excluding the caller.
func LeakedIn(frags ...string) []Goroutine {
	all := Census()
	var mine string
	for _, g := range all {
		if strings.HasPrefix(g.State, "running") {
			mine = g.Bubble
		}
	}
	var out []Goroutine
	for _, g := range all {
		if strings.HasPrefix(g.State, "running") || g.Bubble != mine {
			continue
		}
		for _, f := range frags {
			if strings.Contains(g.Stack, f) {
				out = append(out, g)
				break
			}
		}
	}
	return out
}

// CreatedBy extracts the "created by" line of a goroutine.
func (g Goroutine) CreatedBy() string {
	i := strings.LastIndex(g.Stack, "created by ")
	if i < 0 {
		return "?"
	}
	s := g.Stack[i+len("created by "):]
	if j := strings.IndexAny(s, " \n"); j > 0 {
		s = s[:j]
	}
	return s
}

// TopFrame returns the first function of the goroutine's stack.
func (g Goroutine) TopFrame() string {
	lines := strings.Split(g.Stack, "\n")
	for _, l := range lines[1:] {
		if strings.Contains(l, "lightning-node-connect") {
			if j := strings.Index(l, "("); j > 0 {
				return l[:j]
			}
			return l
		}
	}
	if len(lines) > 1 {
		return lines[1]
	}
	return "?"
}
