module verifharness

go 1.24.9

require (
	github.com/btcsuite/btcd/btcec/v2 v2.3.4
	github.com/btcsuite/btclog/v2 v2.0.1-0.20250110154127-3ae4bf1cb318
	github.com/coder/websocket v1.8.13
	github.com/grpc-ecosystem/grpc-gateway/v2 v2.16.0
	github.com/kkdai/bstream v1.0.0
	github.com/lightninglabs/lightning-node-connect/gbn v1.0.0
	github.com/lightninglabs/lightning-node-connect/hashmailrpc v1.0.2
	github.com/lightningnetwork/lnd v0.19.0-beta
	github.com/lightningnetwork/lnd/tor v1.1.6
	github.com/stretchr/testify v1.9.0
	golang.org/x/crypto v0.35.0
	google.golang.org/grpc v1.59.0
	google.golang.org/protobuf v1.33.0
)

require (
	github.com/Yawning/aez v0.0.0-20211027044916-e49e68abd344 // indirect
	github.com/aead/siphash v1.0.1 // indirect
	github.com/anishathalye/porcupine v1.3.0
	github.com/btcsuite/btcd v0.24.3-0.20250318170759-4f4ea81776d6 // indirect
	github.com/btcsuite/btcd/btcutil v1.1.5 // indirect
	github.com/btcsuite/btcd/btcutil/psbt v1.1.8 // indirect
	github.com/btcsuite/btcd/chaincfg/chainhash v1.1.0 // indirect
	github.com/btcsuite/btclog v0.0.0-20241003133417-09c4e92e319c
	github.com/btcsuite/btcwallet v0.16.13 // indirect
	github.com/btcsuite/btcwallet/wallet/txauthor v1.3.5 // indirect
	github.com/btcsuite/btcwallet/wallet/txrules v1.2.2 // indirect
	github.com/btcsuite/btcwallet/wallet/txsizes v1.2.5 // indirect
	github.com/btcsuite/btcwallet/walletdb v1.5.1 // indirect
	github.com/btcsuite/btcwallet/wtxmgr v1.5.6 // indirect
	github.com/btcsuite/go-socks v0.0.0-20170105172521-4720035b7bfd // indirect
	github.com/btcsuite/websocket v0.0.0-20150119174127-31079b680792 // indirect
	github.com/btcsuite/winsvc v1.0.0 // indirect
	github.com/davecgh/go-spew v1.1.1 // indirect
	github.com/decred/dcrd/crypto/blake256 v1.0.1 // indirect
	github.com/decred/dcrd/dcrec/secp256k1/v4 v4.3.0 // indirect
	github.com/decred/dcrd/lru v1.1.2 // indirect
	github.com/golang/protobuf v1.5.3 // indirect
	github.com/golang/snappy v0.0.4 // indirect
	github.com/jessevdk/go-flags v1.4.0 // indirect
	github.com/jrick/logrotate v1.1.2 // indirect
	github.com/klauspost/compress v1.17.9 // indirect
	github.com/lightninglabs/gozmq v0.0.0-20191113021534-d20a764486bf // indirect
	github.com/lightninglabs/lightning-node-connect/mailbox v1.0.0
	github.com/lightninglabs/neutrino v0.16.1 // indirect
	github.com/lightninglabs/neutrino/cache v1.1.2 // indirect
	github.com/lightningnetwork/lnd/clock v1.1.1 // indirect
	github.com/lightningnetwork/lnd/fn/v2 v2.0.8 // indirect
	github.com/lightningnetwork/lnd/queue v1.1.1 // indirect
	github.com/lightningnetwork/lnd/ticker v1.1.1 // indirect
	github.com/lightningnetwork/lnd/tlv v1.3.1 // indirect
	github.com/miekg/dns v1.1.43 // indirect
	github.com/pmezard/go-difflib v1.0.0 // indirect
	github.com/stretchr/objx v0.5.2 // indirect
	github.com/syndtr/goleveldb v1.0.1-0.20210819022825-2ae1ddf74ef7 // indirect
	gitlab.com/yawning/bsaes.git v0.0.0-20190805113838-0a714cd429ec // indirect
	golang.org/x/exp v0.0.0-20240325151524-a685a6edb6d8 // indirect
	golang.org/x/net v0.25.0 // indirect
	golang.org/x/sync v0.11.0 // indirect
	golang.org/x/sys v0.30.0 // indirect
	golang.org/x/term v0.29.0 // indirect
	golang.org/x/text v0.22.0 // indirect
	google.golang.org/genproto/googleapis/api v0.0.0-20231016165738-49dd2c1f3d0b // indirect
	google.golang.org/genproto/googleapis/rpc v0.0.0-20231030173426-d783a09b4405 // indirect
	gopkg.in/yaml.v3 v3.0.1 // indirect
)

replace github.com/lightninglabs/lightning-node-connect/gbn => /repo/gbn

replace github.com/lightninglabs/lightning-node-connect/mailbox => /repo/mailbox
