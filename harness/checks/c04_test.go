package checks

import (
	"bytes"
	"fmt"
	"github.com/lightninglabs/lightning-node-connect/mailbox"
	"strings"
	"testing"

	"verifharness/eng"
	"verifharness/mon"
)

func TestC04(t *testing.T) {
	mon.Main(t, mon.Check{
		ID:          "C04",
		Level:       "exploration",
		Rule:        "real noise Machines over an in-memory duplex with a man in the middle on both directions. For each of the 36 (clientMin<=clientMax, serverMin<=serverMax) version-range combinations x {XX, KK} x auth payload sizes {0,1,4,498,499,500,65535,65536,200000(quick)/3 MiB(thorough)}: (U) the untampered handshake; (V) every substitution of the version byte of each act by 0..3, all 4^3 (XX) / 4^2 (KK) combinations across the acts; (B) single-bit flips of every handshake byte (thorough: all 8 bits of every byte for payloads <= 600 bytes, first/last 64 bytes of each act plus a PRNG sample for larger ones; quick: one PRNG-chosen bit of every byte, for payload sizes 0, 498 and 499). Oracle per trial: NOT(both DoHandshake calls returned nil AND the views differ), where a view = negotiated version, complementary send/recv traffic keys, the peer's true static key, the initiator's received payload equal to the responder's auth payload, and the ConnData callbacks consistent with it (remote key stored iff version >= 2). Control: equal version ranges must complete untampered. (Q) 96 (quick) / 1200 (thorough) sequences on the same ConnData objects: a pairing in which the transport write of act one, two or three fails (whole, half or all but one byte) - a party whose handshake failed must have published nothing (callbacks, stored key, auth data); the pairing repeated without a fault must complete with agreeing views; then two reconnects of the paired parties with the responder's auth payload replaced by a longer, shorter or empty one: the initiator must hold exactly the latest payload. Half of the responder payload slices have spare capacity and are compared with a snapshot afterwards; the ConnData of the last eight completed initiators of the worker are looked at again before every case (their payload must not change through other sessions' handshakes). Non-trivial = a trial in which at least one side completed; distinct = (pattern, ranges, payload size, tampering).",
		Assumptions: []string{"which range combinations complete is not judged (except equal ranges)"},
		NCases: func(tier string) int {
			if tier == "thorough" {
				return 36*2*9 + 1200
			}
			return 36*2*9 + 96
		},
		MinEvals: 100,
		Run:      runC04,
	})
}

// viewDiff compares the two parties' views after both completed.
func viewDiff(r *eng.HSResult, cfg eng.HSConfig) string {
	cs, ss := r.C.M.VerifSnapshot(), r.S.M.VerifSnapshot()
	if cs.Version != ss.Version {
		return fmt.Sprintf("negotiated versions differ: initiator %d, responder %d", cs.Version, ss.Version)
	}
	if !cs.HaveSendCipher || !ss.HaveSendCipher || cs.SendKey != ss.RecvKey || cs.RecvKey != ss.SendKey {
		return "traffic keys are not complementary"
	}
	if cs.SendKey == cs.RecvKey {
		return "send and receive keys are equal"
	}
	if !keyEq(cs.RemoteStatic, cfg.KeyS.PubKey()) || !keyEq(ss.RemoteStatic, cfg.KeyC.PubKey()) {
		return "a party holds a static key that is not the peer's"
	}
	if !bytes.Equal(cs.ReceivedPayload, cfg.Auth) {
		return fmt.Sprintf("the initiator holds %d bytes of auth payload, the responder sent %d (%s)", len(cs.ReceivedPayload), len(cfg.Auth), prefixNote(cs.ReceivedPayload, cfg.Auth))
	}
	if r.C.AuthCBn != 1 || !bytes.Equal(r.C.AuthCB, cfg.Auth) || !bytes.Equal(r.C.CD.AuthData(), cfg.Auth) {
		return fmt.Sprintf("the initiator's ConnData/callback got %d bytes (callback ran %d times), the responder sent %d", len(r.C.CD.AuthData()), r.C.AuthCBn, len(cfg.Auth))
	}
	wantRemote := cs.Version >= 2
	if cfg.KK {
		// the keys were known before; SetRemote is called again with the same key
		if !keyEq(r.C.CD.RemoteKey(), cfg.KeyS.PubKey()) || !keyEq(r.S.CD.RemoteKey(), cfg.KeyC.PubKey()) {
			return "stored remote keys changed in a key-based handshake"
		}
		return ""
	}
	if (r.C.RemoteN > 0) != wantRemote || (r.S.RemoteN > 0) != wantRemote {
		return fmt.Sprintf("version %d: remote key stored by initiator=%v responder=%v (must be both iff version >= 2)", cs.Version, r.C.RemoteN > 0, r.S.RemoteN > 0)
	}
	if wantRemote && (!keyEq(r.C.CD.RemoteKey(), cfg.KeyS.PubKey()) || !keyEq(r.S.CD.RemoteKey(), cfg.KeyC.PubKey())) {
		return "stored remote key is not the peer's static key"
	}
	return ""
}

func prefixNote(got, want []byte) string {
	if len(got) < len(want) && bytes.Equal(got, want[:len(got)]) {
		return "truncated"
	}
	return "different"
}

// runC04Sequence: the views of two parties over the life of their ConnData
// objects (the application's callbacks installed). (1) a first pairing in which
// one transport write of one party fails (whole or after a part of the act):
// a party whose handshake failed must not have published anything - no
// callback, no stored key, no auth data - because the other party has not
// completed either and both will try again; (2) the pairing repeated on the
// same objects without a fault must complete with agreeing views; (3) the
// responder comes back with another auth payload (longer, shorter, empty) and
// the paired parties reconnect, twice: the initiator must hold exactly the
// payload of the latest handshake.
func runC04Sequence(c *mon.Case) {
	rng := c.Rng
	k := c.Idx - 36*2*9
	sizes := []int{0, 1, 46, 300, 499, 5000, 70000}
	keyC, keyS := eng.NewKey(rng), eng.NewKey(rng)
	pass := eng.Entropy(rng)
	p1 := authMarker(rng, sizes[rng.Intn(len(sizes))])
	tag := fmt.Sprintf("sequence #%d", k)
	rep := map[string]any{"config": tag}
	fail := func(key, desc string) {
		c.Shard.Violate("sequence|"+key, tag+": "+desc, rep)
	}
	// the initiator opens with its minimum version: 2, so that keys are exchanged
	base := eng.HSConfig{CMin: 2, CMax: 2, SMin: byte(rng.Intn(3)), SMax: 2, PassC: pass, PassS: append([]byte{}, pass...), Auth: p1, KeyC: keyC, KeyS: keyS}
	// (1) a write fault in the first attempt
	f := base
	who, at, part := k%3, 0, rng.Intn(3)
	werr := func(target int) func(int, []byte) (int, error) {
		return func(idx int, p []byte) (int, error) {
			if idx != target {
				return len(p), nil
			}
			switch part {
			case 0:
				return 0, fmt.Errorf("write: transport error (injected)")
			case 1:
				return len(p) / 2, fmt.Errorf("write: transport error (injected)")
			}
			return len(p) - 1, fmt.Errorf("write: transport error (injected)")
		}
	}
	switch who {
	case 0:
		f.WriteErrC2S, at = werr(0), 1 // act one
	case 1:
		f.WriteErrS2C, at = werr(0), 2 // act two
	default:
		f.WriteErrC2S, at = werr(1), 3 // act three
	}
	rep["write_fault"] = fmt.Sprintf("act %d, %d", at, part)
	r1 := eng.RunHandshake(f)
	if r1.C.NewErr != nil || r1.S.NewErr != nil {
		c.Shard.Eval("")
		return
	}
	if r1.C.Err == nil && r1.S.Err == nil {
		fail("completed-despite-write-fault", fmt.Sprintf("both parties completed although the write of act %d failed", at))
	}
	if r1.C.Err != nil && (r1.C.RemoteN != 0 || r1.C.AuthCBn != 0 || r1.C.CD.RemoteKey() != nil || r1.C.CD.AuthData() != nil) {
		fail("failed-party-published|initiator", fmt.Sprintf("the initiator's handshake failed (%v; the write of act %d failed) but it has published the peer's data: remote-key callback ran %d times, auth-data callback %d times, ConnData holds a remote key: %v, auth data: %d bytes", r1.C.Err, at, r1.C.RemoteN, r1.C.AuthCBn, r1.C.CD.RemoteKey() != nil, len(r1.C.CD.AuthData())))
	}
	if r1.S.Err != nil && (r1.S.RemoteN != 0 || r1.S.CD.RemoteKey() != nil) {
		fail("failed-party-published|responder", fmt.Sprintf("the responder's handshake failed (%v) but it has stored the initiator's key", r1.S.Err))
	}
	if r1.C.Err == nil || r1.S.Err == nil {
		// one side completed, the other did not (act three lost after the
		// initiator was done with it): the recorded pairing-desync situation,
		// not this slice's subject
		c.Shard.Count("sequence_one_sided_completions", 1)
		c.Shard.Eval("")
		return
	}
	// (2) the pairing again, same objects, no fault
	g := base
	g.ReuseC, g.ReuseS = r1.C, r1.S
	r2 := eng.RunHandshake(g)
	if !r2.OK() {
		fail("retry-failed", fmt.Sprintf("after a first attempt in which the write of act %d failed, the same two parties cannot pair any more: initiator new=%v hs=%v, responder new=%v hs=%v", at, r2.C.NewErr, r2.C.Err, r2.S.NewErr, r2.S.Err))
		return
	}
	if d := viewDiff(r2, g); d != "" {
		fail("views-differ|retry", "both parties completed the repeated pairing but "+d)
	}
	// (3) reconnects with other auth payloads
	pc := r2.C
	prev := len(p1)
	for round := 0; round < 2; round++ {
		var n int
		switch rng.Intn(4) {
		case 0:
			n = 0
		case 1:
			n = prev / 2
		case 2:
			n = prev + 1 + rng.Intn(100)
		default:
			n = sizes[rng.Intn(len(sizes))]
		}
		pn := authMarker(rng, n)
		h := eng.HSConfig{KK: true, CMin: 0, CMax: 2, SMin: 0, SMax: 2, PassC: pass, PassS: append([]byte{}, pass...), Auth: pn, KeyC: keyC, KeyS: keyS, ReuseC: pc}
		r3 := eng.RunHandshake(h)
		if !r3.OK() {
			fail("reconnect-failed", fmt.Sprintf("paired parties could not reconnect (round %d): initiator new=%v hs=%v, responder new=%v hs=%v", round, r3.C.NewErr, r3.C.Err, r3.S.NewErr, r3.S.Err))
			return
		}
		if d := viewDiff(r3, h); d != "" {
			fail("views-differ|reconnect", fmt.Sprintf("reconnect %d (auth payload %d bytes after %d bytes): both completed but %s", round, n, prev, d))
		}
		prev = n
	}
	c.Shard.Count("sequences", 1)
	c.Shard.Eval(fmt.Sprintf("seq|act%d|%d|%d", at, part, len(p1)))
	if k%40 == 0 {
		c.Shard.Sample(rep)
	}
}

func runC04(c *mon.Case) {
	if c.Idx >= 36*2*9 {
		runC04Sequence(c)
		return
	}
	rng := c.Rng
	var ranges [][4]byte
	for a := byte(0); a <= 2; a++ {
		for b := a; b <= 2; b++ {
			for x := byte(0); x <= 2; x++ {
				for y := x; y <= 2; y++ {
					ranges = append(ranges, [4]byte{a, b, x, y})
				}
			}
		}
	}
	vr := ranges[c.Idx%36]
	kk := (c.Idx/36)%2 == 1
	big := 200000
	if c.Tier == "thorough" {
		big = 3 << 20
	}
	sizes := []int{0, 1, 4, 498, 499, 500, 65535, 65536, big}
	psize := sizes[(c.Idx/72)%9]
	auth := authMarker(rng, psize)
	if c.Idx%2 == 1 {
		// the application's payload slice has spare capacity (it was
		// appended to, or cut from a larger buffer)
		auth = append(make([]byte, 0, psize+16+rng.Intn(64)), auth...)
	}
	authOrig := append([]byte{}, auth...)
	c04CheckEarlier(c)
	pass := eng.Entropy(rng)
	cfg := eng.HSConfig{KK: kk, CMin: vr[0], CMax: vr[1], SMin: vr[2], SMax: vr[3], PassC: pass, PassS: pass, Auth: auth, KeyC: eng.NewKey(rng), KeyS: eng.NewKey(rng)}
	tag := fmt.Sprintf("%s c[%d,%d] s[%d,%d] auth=%d", map[bool]string{true: "KK", false: "XX"}[kk], vr[0], vr[1], vr[2], vr[3], psize)
	rep := map[string]any{"config": tag}
	trials, completed := 0, 0

	judge := func(r *eng.HSResult, tamper string) {
		trials++
		if r.C.NewErr != nil || r.S.NewErr != nil {
			return
		}
		if r.C.Done && r.C.Err == nil || r.S.Done && r.S.Err == nil {
			completed++
		}
		if !r.OK() {
			return
		}
		if d := viewDiff(r, cfg); d != "" {
			key := "views-differ|untampered"
			if tamper != "" {
				key = "views-differ|" + tamperKind(tamper)
			}
			if tamperKind(tamper) == "version" {
				// canonical, low-cardinality key: what differs, not
				// which of the 64 rewrite combinations produced it
				key = fmt.Sprintf("views-differ|version-rewrite|%s|%s", map[bool]string{true: "KK", false: "XX"}[kk], strings.TrimPrefix(tamper, "version "))
			}
			m := map[string]any{"config": tag, "tamper": tamper}
			c.Shard.Violate(key, fmt.Sprintf("%s, %s: both parties completed the handshake but %s", tag, orNone(tamper), d), m)
		}
	}

	// (U) untampered
	u := eng.RunHandshake(cfg)
	judge(u, "")
	if u.OK() {
		if !bytes.Equal(auth, authOrig) || !bytes.Equal(u.S.CD.AuthData(), authOrig) {
			c.Shard.Violate("views-differ|responder-payload-changed", fmt.Sprintf("%s: after a completed handshake the responder's own auth payload (%d bytes, slice capacity %d) is not what the application configured any more", tag, len(authOrig), cap(auth)), rep)
		}
		c04Remember(u.C.CD, authOrig, tag)
	}
	if u.C.NewErr != nil || u.S.NewErr != nil {
		c.Shard.Count("machine_rejected_config", 1)
		c.Shard.Eval("")
		return
	}
	if vr[0] == vr[2] && vr[1] == vr[3] && (!kk || vr[1] == 2) && !(vr[3] == 0 && psize > 498) && !u.OK() {
		c.Shard.Violate("control-failed", fmt.Sprintf("%s: equal version ranges, untampered, yet the handshake failed: initiator=%v responder=%v", tag, u.C.Err, u.S.Err), rep)
	}
	if u.OK() {
		c.Shard.Count("untampered_completed", 1)
	}
	acts := 3
	if kk {
		acts = 2
	}
	// act k is message #idx on direction: XX: act1 c2s#0, act2 s2c#0, act3 c2s#1; KK: act1 c2s#0, act2 s2c#0
	actLens := make([]int, acts)
	actLens[0] = len0(u.C2S.Written, 0)
	actLens[1] = len0(u.S2C.Written, 0)
	if acts == 3 {
		actLens[2] = len0(u.C2S.Written, 1)
	}
	mitm := func(edit func(act int, p []byte) []byte) eng.HSConfig {
		m := cfg
		m.HookC2S = func(idx int, p []byte) [][]byte {
			act := 0
			if idx == 1 {
				act = 2
			}
			return [][]byte{edit(act, p)}
		}
		m.HookS2C = func(idx int, p []byte) [][]byte { return [][]byte{edit(1, p)} }
		return m
	}
	// (V) version byte substitutions, all combinations
	combos := 1
	for i := 0; i < acts; i++ {
		combos *= 4
	}
	runVersions := func(vals []int) (*eng.HSResult, []string) {
		changed := make([]string, 3)
		r := eng.RunHandshake(mitm(func(act int, p []byte) []byte {
			q := append([]byte{}, p...)
			if len(q) > 0 && act < acts && vals[act] >= 0 {
				if int(q[0]) != vals[act] {
					changed[act] = fmt.Sprintf("act%d:%d->%d", act+1, q[0], vals[act])
				}
				q[0] = byte(vals[act])
			}
			return q
		}))
		return r, changed
	}
	for v := 0; v < combos; v++ {
		vals := []int{v % 4, (v / 4) % 4, (v / 16) % 4}
		r, changed := runVersions(vals)
		if r.OK() && viewDiff(r, cfg) != "" {
			// minimise: drop every rewrite that is not needed for the
			// two views to differ, so that the key names the smallest
			// tampering that does it
			for a := 0; a < acts; a++ {
				if changed[a] == "" {
					vals[a] = -1
					continue
				}
				try := append([]int{}, vals...)
				try[a] = -1
				if r2, _ := runVersions(try); r2.OK() && viewDiff(r2, cfg) != "" {
					vals = try
				}
			}
			r, changed = runVersions(vals)
		}
		desc := "version"
		for a, ch := range changed {
			if ch == "" {
				continue
			}
			if a == 0 {
				// which value act 1 is rewritten to does not matter,
				// only that the responder would have refused the
				// original
				ch = "act1:*"
			}
			desc += " " + ch
		}
		judge(r, desc)
	}
	// (B) single-bit flips
	if c.Tier != "thorough" && psize != 0 && psize != 498 && psize != 499 {
		acts = 0
	}
	for act := 0; act < acts; act++ {
		n := actLens[act]
		var positions []int
		if n <= 600 {
			for i := 0; i < n; i++ {
				positions = append(positions, i)
			}
		} else {
			for i := 0; i < 64; i++ {
				positions = append(positions, i, n-1-i)
			}
			for i := 0; i < 40; i++ {
				positions = append(positions, rng.Intn(n))
			}
		}
		budget := 8
		if psize > 600 || c.Tier != "thorough" {
			budget = 1 // one bit per (sampled) byte
		}
		for _, pos := range positions {
			for b := 0; b < budget; b++ {
				bit := b
				if budget == 1 {
					bit = rng.Intn(8)
				}
				a, ps := act, pos
				r := eng.RunHandshake(mitm(func(act2 int, p []byte) []byte {
					if act2 != a || ps >= len(p) {
						return p
					}
					q := append([]byte{}, p...)
					q[ps] ^= 1 << bit
					return q
				}))
				judge(r, fmt.Sprintf("bitflip act%d byte %d bit %d", act+1, pos, bit))
			}
		}
	}
	c.Shard.Count("handshakes", int64(trials))
	c.Shard.Count("handshakes_with_a_completion", int64(completed))
	if completed > 0 {
		c.Shard.Eval(tag)
	} else {
		c.Shard.Eval("")
	}
	if c.Idx%97 == 0 {
		c.Shard.Sample(map[string]any{"config": tag, "trials": trials, "trials_with_a_completed_side": completed, "act_lengths": actLens})
	}
}

func len0(w [][]byte, i int) int {
	if i < len(w) {
		return len(w[i])
	}
	return 0
}

func orNone(s string) string {
	if s == "" {
		return "untampered"
	}
	return "tampering: " + s
}

func tamperKind(s string) string {
	if len(s) >= 7 && s[:7] == "version" {
		return "version"
	}
	if s == "" {
		return "untampered"
	}
	return "bitflip"
}

// What an initiator holds after a completed handshake must stay what its
// responder sent, whatever other sessions of the same process do afterwards:
// the ConnData of earlier cases of this worker are looked at again.
var c04Earlier []struct {
	cd   *mailbox.ConnData
	want []byte
	tag  string
}

func c04Remember(cd *mailbox.ConnData, want []byte, tag string) {
	if len(want) == 0 || len(want) > 70000 {
		return
	}
	c04Earlier = append(c04Earlier, struct {
		cd   *mailbox.ConnData
		want []byte
		tag  string
	}{cd, want, tag})
	if len(c04Earlier) > 8 {
		c04Earlier = c04Earlier[1:]
	}
}

func c04CheckEarlier(c *mon.Case) {
	for _, e := range c04Earlier {
		if got := e.cd.AuthData(); !bytes.Equal(got, e.want) {
			c.Shard.Violate("views-differ|payload-changed-later", fmt.Sprintf("an initiator that completed its handshake earlier (%s) held the responder's %d-byte auth payload then; after handshakes of other sessions in the same process its ConnData holds %d bytes that differ (first difference at offset %d)", e.tag, len(e.want), len(got), firstDiff(got, e.want)), nil)
			c04Earlier = nil
			return
		}
	}
}
