package checks

import (
	"bytes"
	"fmt"
	"reflect"
	"testing"

	"verifharness/mon"

	"github.com/lightninglabs/lightning-node-connect/gbn"
	"github.com/lightninglabs/lightning-node-connect/mailbox"
)

func TestC19(t *testing.T) {
	mon.Main(t, mon.Check{
		ID:          "C19",
		Level:       "exploration",
		Rule:        "real codecs. (S) serialise-then-deserialise for every GBN packet type x all 256 values of every one-byte field x both flags x payload lengths {0,1,2,3,4,5,255,256,65535,1 MiB} and for MsgData with all 256 version bytes x the same payload lengths, into a fresh and into a reused target. (D) for every byte string b that deserialises, Deserialize(Serialize(Deserialize(b))) must equal Deserialize(b): all strings of <=2 bytes, all 3-byte strings (quick) and all 4-byte strings whose first byte is a packet type (thorough), plus PRNG strings up to 64 bytes; MsgData with length prefixes smaller/equal/greater than the real length. Case = one slice of the space; non-trivial = every slice (each holds thousands of distinct values); the evaluations counter counts individual round trips. The byte slices returned by Serialize are kept and compared with a snapshot after all later Serialize calls of the slice (a sender keeps them for retransmission).",
		Assumptions: []string{"equality is semantic: an empty payload equals a nil payload"},
		Exhaustive:  true,
		NCases: func(tier string) int {
			if tier == "thorough" {
				return 256 + 6*256
			}
			return 256 + 16
		},
		MinEvals: 100,
		Run:      runC19,
	})
}

func msgEqual(a, b gbn.Message) bool {
	da, oka := a.(*gbn.PacketData)
	db, okb := b.(*gbn.PacketData)
	if oka || okb {
		return oka && okb && da.Seq == db.Seq && da.FinalChunk == db.FinalChunk && da.IsPing == db.IsPing && bytes.Equal(da.Payload, db.Payload)
	}
	return reflect.DeepEqual(a, b)
}

// reRoundTrip checks clause (D) for one byte string; returns whether b
// deserialised.
func reRoundTrip(c *mon.Case, b []byte) (ok bool) {
	defer func() {
		// A decoder panic is judged by C07; here it only means that b
		// did not deserialise.
		if r := recover(); r != nil {
			c.Shard.Count("decoder_panics_seen_judged_by_C07", 1)
			ok = false
		}
	}()
	m1, err := gbn.Deserialize(b)
	if err != nil {
		return false
	}
	ser, err := m1.Serialize()
	if err != nil {
		c.Shard.Violate("reserialize-error", fmt.Sprintf("bytes %x deserialise to %T%+v which fails to serialise: %v", trunc(b), m1, m1, err), nil)
		return true
	}
	m2, err := gbn.Deserialize(ser)
	if err != nil || !msgEqual(m1, m2) {
		c.Shard.Violate("gbn-reserialize-differs", fmt.Sprintf("bytes %x deserialise to %T%+v, re-serialise to %x, which deserialises to %+v (err %v)", trunc(b), m1, m1, trunc(ser), m2, err), map[string]any{"bytes": fmt.Sprintf("%x", trunc(b))})
	}
	return true
}

func trunc(b []byte) []byte {
	if len(b) > 24 {
		return b[:24]
	}
	return b
}

var c19Lens = []int{0, 1, 2, 3, 4, 5, 255, 256, 65535, 1 << 20}

func runC19(c *mon.Case) {
	var n int64
	defer func() {
		c.Shard.Count("round_trips", n)
		c.Shard.Eval(fmt.Sprintf("slice-%d", c.Idx))
	}()
	if c.Idx < 256 {
		v := uint8(c.Idx)
		// (S) every packet type with this field value
		payloads := make([][]byte, len(c19Lens))
		for i, l := range c19Lens {
			if l == 1<<20 && v%16 != 0 {
				l = 7 // keep the MiB payload to a subset of the slices
			}
			p := make([]byte, l)
			for j := range p {
				p[j] = byte(j*7 + int(v))
			}
			payloads[i] = p
		}
		msgs := []gbn.Message{&gbn.PacketACK{Seq: v}, &gbn.PacketNACK{Seq: v}, &gbn.PacketSYN{N: v}, &gbn.PacketFIN{}, &gbn.PacketSYNACK{}}
		for _, p := range payloads {
			for _, fin := range []bool{false, true} {
				for _, ping := range []bool{false, true} {
					msgs = append(msgs, &gbn.PacketData{Seq: v, FinalChunk: fin, IsPing: ping, Payload: p})
				}
			}
		}
		// What Serialize returned is kept (a sender keeps it for
		// retransmissions) and decoded again after all the other messages
		// of the slice have been serialised.
		type kept struct {
			ser, snapshot []byte
			m             gbn.Message
			md            *mailbox.MsgData
		}
		var keep []kept
		defer func() {
			for _, k := range keep {
				n++
				if !bytes.Equal(k.ser, k.snapshot) {
					what := fmt.Sprintf("%T", k.m)
					if k.md != nil {
						what = "MsgData"
					}
					c.Shard.Violate("serialized-bytes-changed", fmt.Sprintf("the bytes returned by %s.Serialize (%d bytes, %x..) were overwritten by later Serialize calls (now %x..)", what, len(k.snapshot), trunc(k.snapshot), trunc(k.ser)), nil)
					break
				}
			}
		}()
		for _, m := range msgs {
			ser, err := m.Serialize()
			if err != nil {
				c.Shard.Violate("serialize-error", fmt.Sprintf("%T%+v: %v", m, m, err), nil)
				continue
			}
			keep = append(keep, kept{ser: ser, snapshot: append([]byte{}, ser...), m: m})
			m2, err := gbn.Deserialize(ser)
			n++
			if err != nil || !msgEqual(m, m2) {
				c.Shard.Violate("gbn-roundtrip", fmt.Sprintf("%T seq/n=%d does not round-trip: serialised %x, deserialised %T%+v err=%v", m, v, trunc(ser), m2, m2, err), nil)
			}
			reRoundTrip(c, ser)
			n++
		}
		// (O) one packet object used again and again: serialised, its fields
		// changed, serialised again (a packet that goes through the send
		// queue a second time, a received packet that is altered and
		// forwarded) - and a packet obtained from Deserialize, then changed.
		// Every serialisation must describe the fields as they are now.
		obj := &gbn.PacketData{}
		for i, p := range payloads {
			for _, flags := range [][2]bool{{false, false}, {true, false}, {false, true}, {true, true}} {
				obj.Seq, obj.FinalChunk, obj.IsPing, obj.Payload = v+uint8(i), flags[0], flags[1], p
				fresh := &gbn.PacketData{Seq: obj.Seq, FinalChunk: obj.FinalChunk, IsPing: obj.IsPing, Payload: p}
				a, errA := obj.Serialize()
				b, errB := fresh.Serialize()
				n++
				if errA != nil || errB != nil || !bytes.Equal(a, b) {
					c.Shard.Violate("gbn-roundtrip|reused-object", fmt.Sprintf("a PacketData object that was serialised before and then changed to seq=%d final=%v ping=%v payload %d bytes serialises to %x.., a fresh packet with the same fields to %x..", obj.Seq, obj.FinalChunk, obj.IsPing, len(p), trunc(a), trunc(b)), nil)
				}
				if len(b) > 0 && len(b) < 4096 {
					if dm, err := gbn.Deserialize(b); err == nil {
						if d, ok := dm.(*gbn.PacketData); ok {
							d.Seq++
							d.FinalChunk = !d.FinalChunk
							want := &gbn.PacketData{Seq: d.Seq, FinalChunk: d.FinalChunk, IsPing: d.IsPing, Payload: d.Payload}
							x, _ := d.Serialize()
							y, _ := want.Serialize()
							n++
							if !bytes.Equal(x, y) {
								c.Shard.Violate("gbn-roundtrip|changed-after-decode", fmt.Sprintf("a decoded PacketData whose seq and final flag were changed serialises to %x.., a fresh packet with those fields to %x..", trunc(x), trunc(y)), nil)
							}
						}
					}
				}
			}
		}
		// MsgData, version byte v
		reused := mailbox.NewMsgData(0, nil)
		for _, p := range payloads {
			m := mailbox.NewMsgData(v, p)
			ser, err := m.Serialize()
			if err != nil {
				c.Shard.Violate("msgdata-serialize-error", err.Error(), nil)
				continue
			}
			keep = append(keep, kept{ser: ser, snapshot: append([]byte{}, ser...), md: m})
			for _, tgt := range []*mailbox.MsgData{mailbox.NewMsgData(0, nil), reused} {
				err = tgt.Deserialize(ser)
				n++
				if err != nil || tgt.ProtocolVersion() != v || !bytes.Equal(tgt.Payload, p) {
					which := "fresh"
					if tgt == reused {
						which = "reused"
					}
					c.Shard.Violate("msgdata-roundtrip|"+which, fmt.Sprintf("MsgData version=%d payload len %d deserialised into a %s message gives version=%d payload len %d err=%v", v, len(p), which, tgt.ProtocolVersion(), len(tgt.Payload), err), nil)
				}
			}
			// (D) on MsgData with a length prefix smaller / greater than
			// the real length
			for _, delta := range []int{-2, -1, 1, 2} {
				if len(p)+delta < 0 || len(p) > 70000 {
					continue
				}
				b := append([]byte{}, ser...)
				nl := uint32(len(p) + delta)
				b[1], b[2], b[3], b[4] = byte(nl>>24), byte(nl>>16), byte(nl>>8), byte(nl)
				m1 := mailbox.NewMsgData(0, nil)
				if m1.Deserialize(b) != nil {
					continue
				}
				s2, _ := m1.Serialize()
				m2 := mailbox.NewMsgData(0, nil)
				err := m2.Deserialize(s2)
				n++
				if err != nil || m2.ProtocolVersion() != m1.ProtocolVersion() || !bytes.Equal(m1.Payload, m2.Payload) {
					c.Shard.Violate("msgdata-reserialize-differs", fmt.Sprintf("MsgData bytes with length prefix %d over %d payload bytes: first decode len %d, after re-serialisation len %d err=%v", nl, len(p), len(m1.Payload), len(m2.Payload), err), nil)
				}
			}
		}
		// an empty message decoded into a target that still holds an
		// earlier, non-empty message
		{
			ser, _ := mailbox.NewMsgData(v, nil).Serialize()
			err := reused.Deserialize(ser)
			n++
			if err != nil || reused.ProtocolVersion() != v || len(reused.Payload) != 0 {
				c.Shard.Violate("msgdata-roundtrip|reused-empty", fmt.Sprintf("MsgData version=%d with an empty payload deserialised into a message that held %d bytes before: payload len is now %d (err=%v), not 0", v, len(payloads[len(payloads)-1]), len(reused.Payload), err), nil)
			}
		}
		if c.Idx%64 == 0 {
			c.Shard.Sample(map[string]any{"kind": "S", "field_value": v, "messages": len(msgs), "payload_lens": c19Lens})
		}
		return
	}
	// (D) raw byte strings
	k := c.Idx - 256
	if c.Tier == "thorough" {
		// all 4-byte strings starting with type t=k/256+1, second byte k%256
		b := []byte{byte(k/256 + 1), byte(k % 256), 0, 0}
		for x := 0; x < 65536; x++ {
			b[2], b[3] = byte(x>>8), byte(x)
			reRoundTrip(c, b)
			n++
			if x < 256 {
				reRoundTrip(c, b[:3])
				n++
			}
		}
		if k%256 == 0 {
			reRoundTrip(c, b[:1])
			reRoundTrip(c, nil)
			for y := 0; y < 256; y++ {
				reRoundTrip(c, []byte{b[0], byte(y)})
			}
		}
	} else {
		// 16 slices: all strings of <=3 bytes, first byte = k*16..k*16+15
		for f := k * 16; f < k*16+16; f++ {
			reRoundTrip(c, []byte{byte(f)})
			n++
			for x := 0; x < 65536; x++ {
				reRoundTrip(c, []byte{byte(f), byte(x >> 8), byte(x)})
				n++
				if x < 256 {
					reRoundTrip(c, []byte{byte(f), byte(x)})
					n++
				}
			}
		}
		if k == 0 {
			reRoundTrip(c, nil)
			reRoundTrip(c, []byte{})
		}
	}
	// PRNG strings
	for i := 0; i < 3000; i++ {
		b := make([]byte, 1+c.Rng.Intn(64))
		c.Rng.Read(b)
		b[0] = byte(1 + c.Rng.Intn(6))
		reRoundTrip(c, b)
		n++
	}
	if k == 0 {
		c.Shard.Sample(map[string]any{"kind": "D", "slice": k, "example": "all byte strings with the given first byte(s)"})
	}
}
