package checks

import (
	"context"
	"fmt"
	"os"
	"strings"
	"sync"
	"sync/atomic"
	"testing"
	"testing/synctest"
	"time"

	"verifharness/eng"
	"verifharness/mon"
	"verifharness/sim"

	"github.com/lightninglabs/lightning-node-connect/gbn"
)

// decision codes of the handshake fault enumeration
const (
	dDeliver = iota
	dDrop
	dDup
	dDelay
)

var c10Stale = [][2][]string{ // {stale packets queued towards the server, towards the client}
	{nil, nil},
	{{"SYN'"}, nil},
	{{"SYNACK"}, nil},
	{{"DATA"}, nil},
	{{"ACK", "NACK"}, nil},
	{{"FIN"}, nil},
	{{"SYN255"}, nil},
	{{"SYN255", "SYNACK"}, nil},
	{nil, {"SYN'"}},
	{nil, {"SYNACK"}},
	{nil, {"DATA"}},
	{nil, {"ACK", "NACK"}},
	{nil, {"FIN"}},
	{{"DATA", "ACK"}, {"SYN'", "DATA"}},
	{{"SYN'", "SYNACK", "DATA"}, {"ACK"}},
	{{"PING"}, {"PING"}},
	{{"SYN'", "SYN255", "SYNACK"}, nil},
	{{"SYN'", "SYN'", "SYNACK", "DATA"}, {"SYNACK"}},
}

func stalePacket(kind string, n uint8) []byte {
	other := n + 3
	if other >= 255 {
		other = 7
	}
	switch kind {
	case "SYN'":
		return []byte{sim.TSyn, other}
	case "SYN255":
		return []byte{sim.TSyn, 255}
	case "SYNACK":
		return []byte{sim.TSynAck}
	case "DATA":
		return []byte{sim.TData, 0, 1, 0, 's', 't', 'a', 'l', 'e'}
	case "PING":
		return []byte{sim.TData, 0, 0, 1}
	case "ACK":
		return []byte{sim.TAck, 0}
	case "NACK":
		return []byte{sim.TNack, 1}
	case "FIN":
		return []byte{sim.TFin}
	}
	panic(kind)
}

func c10Dims(tier string) (k, vectors, stale, orders int) {
	k = 2
	if tier == "thorough" {
		k = 3
	}
	vectors = 1
	for i := 0; i < 2*k; i++ {
		vectors *= 4
	}
	return k, vectors, len(c10Stale), 3
}

func TestC10(t *testing.T) {
	mon.Main(t, mon.Check{
		ID:    "C10",
		Level: "fault_enumeration",
		Rule:  "real gbn handshake code in virtual time. Enumeration: every decision vector in {deliver, drop, duplicate in order, delay past the handshake timeout}^(2k) over the first k packets of each direction (k=2 quick: 256 vectors, k=3 thorough: 4096) x 3 start orders (client first, server first, same instant) x 18 stale-prefix configurations (packets of an earlier connection queued in either direction: SYN with another N, SYN(255), SYNACK, DATA, PING, ACK+NACK, FIN and mixes), full product in both tiers; window N rotating over {1,20,254} in quick, N=20 plus all N in 1..254 for the no-fault and single-fault rows in thorough. Drivers behave like the mailbox layer: the server re-listens after a failed or finished connection, the client re-dials (up to 40 attempts, 0.5 s apart) when a constructor fails or its first request is not answered within 20 s; keepalive as the mailbox configures it (7s/3s client, 5s/3s server); a third of the cases over links whose Send/Recv calls take 1 ns .. 1 µs. Oracles: a server that enters the data phase has a representable window (n != 255, sequence space n+1 > n) that appeared in some SYN delivered to it; when data flows both ends use the client's N; after the faulty prefix a handshake succeeds and one message is delivered in each direction within 15 virtual minutes; no worker death. Plus 144 transport-error cases: the k-th transport read or write (k in 1..4) of the server or of the client fails once with an error (nothing lost, the transport works afterwards) x 3 start orders x N in {1,20,254}; a constructor that returns neither a connection nor an error is a violation. Plus the first-messages family (768 cases; in half of them the client's application waits 3 s, longer than the handshake timeout, before it sends): the client's first SYNACK delivered / dropped / delayed past the handshake timeout x {deliver, drop}^3 over the client's first three data packets x {deliver, drop}^2 over the server's first two x N in {1,2,3,20}; both applications send four messages the moment their constructor returns, and what the first connection of each side receives from the first connection of the other must be m0, m1, ... in order (the handshake may be completed by a data packet that is not the first one). Non-trivial = at least one fault decision or stale packet; distinct = (vector, order, stale, N).",
		Assumptions: []string{
			"stale SYNs that were really delivered to the server are not held against it (it cannot tell them apart)",
			"transport preserves per-direction order",
		},
		NCases: func(tier string) int {
			_, v, s, o := c10Dims(tier)
			if tier == "thorough" {
				return v*s*o + 254*(1+2*6)*o + c10TransportErrCases + c10FirstDataCases
			}
			return v*o*s + c10TransportErrCases + c10FirstDataCases
		},
		MinEvals: 100,
		Run:      runC10,
	})
}

// c10TransportErrCases: one transport call of the handshake fails once with an
// error (nothing is lost, the transport works afterwards): the k-th read or
// write (k in 1..4) of the server or of the client x 3 start orders x N in
// {1,20,254}.
const c10TransportErrCases = 4 * 2 * 2 * 3 * 3

type c10TErr struct {
	on   bool
	pos  int  // 1-based call number
	read bool // Recv (true) or Send
	cli  bool // the client's call (true) or the server's
}

func (e c10TErr) String() string {
	if !e.on {
		return "none"
	}
	op, side := "write", "server"
	if e.read {
		op = "read"
	}
	if e.cli {
		side = "client"
	}
	return fmt.Sprintf("%s's transport %s #%d fails once", side, op, e.pos)
}

func runC10(c *mon.Case) {
	k, nv, ns, no := c10Dims(c.Tier)
	enum := nv * ns * no
	if c.Tier == "thorough" {
		enum += 254 * (1 + 2*6) * no
	}
	if c.Idx >= enum+c10TransportErrCases {
		runC10FirstData(c, c.Idx-enum-c10TransportErrCases)
		return
	}
	if c.Idx >= enum {
		j := c.Idx - enum
		te := c10TErr{on: true, pos: j%4 + 1, read: (j/4)%2 == 0, cli: (j/8)%2 == 1}
		runC10Case(c, k, make([]int, 2*k), (j/16)%3, 0, []uint8{1, 20, 254}[(j/48)%3], te)
		return
	}
	var (
		vec   []int
		order int
		stale int
		n     uint8
	)
	decode := func(v int) []int {
		d := make([]int, 2*k)
		for i := range d {
			d[i] = v % 4
			v /= 4
		}
		return d
	}
	if c.Tier == "thorough" {
		full := nv * ns * no
		if c.Idx < full {
			v := c.Idx % nv
			order = (c.Idx / nv) % no
			stale = c.Idx / nv / no
			vec = decode(v)
			n = 20
		} else {
			j := c.Idx - full
			order = j % no
			row := (j / no) % 13
			n = uint8(1 + j/no/13)
			vec = make([]int, 2*k)
			if row > 0 { // single fault: position (row-1)/2... over 6 positions x {drop, dup}
				pos := (row - 1) % (2 * k)
				vec[pos] = dDrop + (row-1)/(2*k)
			}
		}
	} else {
		v := c.Idx % nv
		order = (c.Idx / nv) % no
		stale = c.Idx / nv / no
		vec = decode(v)
		n = []uint8{1, 20, 254}[(v+stale+order)%3]
	}
	runC10Case(c, k, vec, order, stale, n, c10TErr{})
}

func runC10Case(c *mon.Case, k int, vec []int, order, stale int, n uint8, te c10TErr) {
	hs := 2 * time.Second
	conf := eng.GBNConf{N: n, HSTimeout: hs, PingC: 7 * time.Second, PongC: 3 * time.Second, PingS: 5 * time.Second, PongS: 3 * time.Second, Lat: 5 * time.Millisecond}
	// a third of the cases run over links whose calls take 1 ns .. 1 µs, which
	// reorders what happens at one and the same virtual instant
	if (c.Idx/5)%3 == 1 {
		conf.JitterMax = []time.Duration{time.Nanosecond, time.Microsecond}[(c.Idx/15)%2]
		conf.JitterSeed = int64(c.Idx)*7919 + 1
	}
	key := fmt.Sprintf("v=%v|o=%d|st=%d|N=%d|te=%s", vec, order, stale, n, te)
	rep := map[string]any{"transport_error": te.String(), "vector_c2s_then_s2c": vec, "order": []string{"client first", "server first", "same instant"}[order], "stale": c10Stale[stale], "N": n, "conf": conf.String()}
	nontrivial := stale != 0 || te.on
	for _, d := range vec {
		if d != dDeliver {
			nontrivial = true
		}
	}
	viol := func(k2, desc string) { c.Shard.Violate(k2, desc, rep) }

	synctest.Test(c.T, func(t *testing.T) {
		ctx, cancel := context.WithCancel(context.Background())
		defer cancel()
		p := eng.NewPair(conf)
		// stale packets of an earlier connection
		for _, s := range c10Stale[stale][0] {
			p.C2S.Inject(stalePacket(s, n))
		}
		for _, s := range c10Stale[stale][1] {
			p.S2C.Inject(stalePacket(s, n))
		}
		mkDecider := func(ds []int) sim.Decider {
			return func(idx int, pk sim.Pkt, now time.Time) sim.Decision {
				if idx >= len(ds) {
					return sim.Decision{}
				}
				switch ds[idx] {
				case dDrop:
					return sim.Decision{Drop: true}
				case dDup:
					return sim.Decision{Dup: 1}
				case dDelay:
					return sim.Decision{Delay: hs + 500*time.Millisecond}
				}
				return sim.Decision{}
			}
		}
		p.C2S.SetDecider(mkDecider(vec[:k]))
		p.S2C.SetDecider(mkDecider(vec[k:]))
		if te.on {
			terr := fmt.Errorf("transport: transient %s failure (injected)", map[bool]string{true: "read", false: "write"}[te.read])
			switch {
			case te.read && te.cli:
				p.S2C.FailRecvsAfter(te.pos-1, 1, terr)
			case te.read:
				p.C2S.FailRecvsAfter(te.pos-1, 1, terr)
			case te.cli:
				p.C2S.FailSendsAfter(te.pos-1, 1, terr)
			default:
				p.S2C.FailSendsAfter(te.pos-1, 1, terr)
			}
		}
		// SYNs delivered to the server side of the link
		var mu sync.Mutex
		synsSeen := map[uint8]bool{}
		p.C2S.OnDeliver = func(idx int, pk sim.Pkt) {
			if pk.Type == sim.TSyn && pk.Valid {
				mu.Lock()
				synsSeen[pk.Seq] = true
				mu.Unlock()
			}
		}

		var srvGotReq, cliGotResp atomic.Bool
		var srvConns, cliConns, cliErrs, srvErrs atomic.Int64
		var wg sync.WaitGroup
		success := make(chan struct{})
		var once sync.Once

		server := func() {
			defer wg.Done()
			for ctx.Err() == nil {
				g, err := gbn.NewServerConn(ctx, p.S2C.Send, p.C2S.Recv, conf.ServerOpts()...)
				if err == nil && g == nil {
					viol("constructor-returned-nothing", "NewServerConn returned neither a connection nor an error")
					err = fmt.Errorf("no connection")
				}
				if err != nil {
					srvErrs.Add(1)
					select {
					case <-ctx.Done():
					case <-time.After(100 * time.Millisecond):
					}
					continue
				}
				srvConns.Add(1)
				st := g.VerifState()
				qs := g.VerifQueueS()
				mu.Lock()
				seen := synsSeen[st.N]
				mu.Unlock()
				select {
				case <-ctx.Done():
					// a constructor that returns (conn, nil) because its
					// context was cancelled is not a handshake
				default:
					if st.N == 255 || qs != st.N+1 || st.S != st.N+1 || qs <= st.N {
						viol("server-unrepresentable-window", fmt.Sprintf("server entered the data phase with n=%d s=%d queue.s=%d", st.N, st.S, qs))
					} else if !seen {
						viol("server-window-never-proposed", fmt.Sprintf("server entered the data phase with n=%d but no SYN carrying %d was ever delivered to it", st.N, st.N))
					}
				}
				// echo application
				for {
					b, err := g.Recv()
					if err != nil {
						break
					}
					if strings.HasPrefix(string(b), "req") {
						if st.N == n {
							srvGotReq.Store(true)
						}
						if g.Send([]byte("resp")) != nil {
							break
						}
					}
				}
				_ = g.Close()
			}
		}
		client := func() {
			defer wg.Done()
			for attempt := 0; attempt < 40 && ctx.Err() == nil; attempt++ {
				if attempt > 0 {
					// a dialer backs off before it tries again (gRPC
					// starts at 1 s); without a pause all attempts can
					// be burnt within a few hundred milliseconds while
					// packets of the failed ones are still in flight
					select {
					case <-ctx.Done():
					case <-time.After(500 * time.Millisecond):
					}
				}
				g, err := gbn.NewClientConn(ctx, n, p.C2S.Send, p.S2C.Recv, conf.ClientOpts()...)
				if err == nil && g == nil {
					viol("constructor-returned-nothing", "NewClientConn returned neither a connection nor an error: the side that cannot proceed reports no error")
					err = fmt.Errorf("no connection")
				}
				if err != nil {
					cliErrs.Add(1)
					select {
					case <-ctx.Done():
					case <-time.After(200 * time.Millisecond):
					}
					continue
				}
				cliConns.Add(1)
				if st := g.VerifState(); st.N != n || st.S != n+1 {
					viol("client-window-changed", fmt.Sprintf("client entered the data phase with n=%d s=%d, proposed %d", st.N, st.S, n))
				}
				g.SetRecvTimeout(20 * time.Second)
				ok := false
				if g.Send([]byte("req")) == nil {
					if b, err := g.Recv(); err == nil && string(b) == "resp" {
						ok = true
					}
				}
				if ok {
					cliGotResp.Store(true)
					once.Do(func() { close(success) })
					<-ctx.Done()
					_ = g.Close()
					return
				}
				_ = g.Close()
			}
		}
		wg.Add(2)
		switch order {
		case 0:
			go client()
			time.Sleep(700 * time.Millisecond)
			go server()
		case 1:
			go server()
			time.Sleep(700 * time.Millisecond)
			go client()
		default:
			go server()
			go client()
		}
		converged := false
		select {
		case <-success:
			converged = true
		case <-time.After(15 * time.Minute):
		}
		rep["client_conns"], rep["server_conns"] = cliConns.Load(), srvConns.Load()
		rep["client_errs"], rep["server_errs"] = cliErrs.Load(), srvErrs.Load()
		if !converged {
			rep["wire_c2s"] = wireTail(p.C2S.Log(), 40)
			rep["wire_s2c"] = wireTail(p.S2C.Log(), 40)
			viol("no-convergence", fmt.Sprintf("no handshake led to a request/response exchange within 15 virtual minutes and 40 client attempts (client conns %d errs %d, server conns %d errs %d)", cliConns.Load(), cliErrs.Load(), srvConns.Load(), srvErrs.Load()))
		} else if !srvGotReq.Load() {
			viol("data-flow-mismatch", "client got a response but the server connection that served it did not use the client's N")
		}
		c.Shard.Max("max_client_attempts_in_one_case", cliConns.Load()+cliErrs.Load())
		if cliConns.Load()+cliErrs.Load() >= 8 && getenv("C10_DEBUG") != "" {
			f, _ := os.OpenFile(getenv("C10_DEBUG"), os.O_CREATE|os.O_APPEND|os.O_WRONLY, 0o644)
			defer f.Close()
			fmt.Fprintf(f, "MANY-ATTEMPTS case %d key %s attempts %d conns %d\nC2S %v\nS2C %v\n", c.Idx, key, cliConns.Load()+cliErrs.Load(), cliConns.Load(), wireTail(p.C2S.Log(), 80), wireTail(p.S2C.Log(), 80))
		}
		c.Shard.Count("client_attempts", cliConns.Load()+cliErrs.Load())
		c.Shard.Count("server_attempts", srvConns.Load()+srvErrs.Load())
		if cliConns.Load()+cliErrs.Load() > 1 {
			c.Shard.Count("needed_redial", 1)
		}
		cancel()
		p.C2S.Close()
		p.S2C.Close()
		wg.Wait()
		if lk := eng.Settle(); len(lk) > 0 {
			c.Shard.Inconc("leak after handshake scenario (judged by C12): " + lk[0].CreatedBy())
			mon.FlushAndExit(c.Shard)
		}
	})
	if nontrivial {
		c.Shard.Eval(key)
	} else {
		c.Shard.Eval("")
	}
	if c.Idx%1500 == 7 {
		c.Shard.Sample(rep)
	}
}

// c10FirstDataCases: the first-messages family. 3 fates of the client's first
// SYNACK x {deliver, drop}^3 over the client's first three data packets x
// {deliver, drop}^2 over the server's first two x N in {1,2,3,20}.
const c10FirstDataCases = 3 * 8 * 4 * 4 * 2

// runC10FirstData: the handshake is completed by something other than the
// SYNACK. The client is in the data phase as soon as it has seen the echo of
// its SYN and starts to send at once; if its SYNACK is lost or late, the
// server leaves the handshake through its restarted-handshake paths, possibly
// on a DATA packet that is not the client's first one. Whatever path is taken,
// the messages of the first connection pair must arrive as a prefix of what was
// sent (C01's oracle at the point where the two protocols meet): both
// applications send a burst of four messages the moment their constructor
// returns. Only the first connection of each side is judged - a later
// connection may legitimately receive packets of the earlier one that are
// still in the transport (GBN packets carry no connection id), which is outside
// what C10 and C01 promise.
func runC10FirstData(c *mon.Case, j int) {
	synack := j % 3
	cd := (j / 3) % 8
	sd := (j / 24) % 4
	n := []uint8{1, 2, 3, 20}[(j/96)%4]
	// In half of the cases the client's application waits for longer than
	// the handshake timeout (and less than its ping interval) before it
	// sends: a server whose wait for the SYNACK has timed out by then is
	// back in its first state and completes on whatever SYNACK or DATA
	// packet comes next.
	wait := []time.Duration{0, 3 * time.Second}[(j/384)%2]
	hs := 2 * time.Second
	conf := eng.GBNConf{N: n, HSTimeout: hs, PingC: 7 * time.Second, PongC: 3 * time.Second, PingS: 5 * time.Second, PongS: 3 * time.Second, Lat: 5 * time.Millisecond}
	key := fmt.Sprintf("first-data|synack=%d|c=%03b|s=%02b|N=%d|wait=%s", synack, cd, sd, n, wait)
	rep := map[string]any{"family": "first-messages", "client_synack": []string{"delivered", "dropped", "delayed past the handshake timeout"}[synack],
		"client_waits_before_sending": wait.String(), "client_data_drops_bitmask": cd, "server_data_drops_bitmask": sd, "N": n, "conf": conf.String()}
	const burst = 4
	synctest.Test(c.T, func(t *testing.T) {
		ctx, cancel := context.WithCancel(context.Background())
		defer cancel()
		p := eng.NewPair(conf)
		var nSynAck, nCData, nSData int
		p.C2S.SetDecider(func(idx int, pk sim.Pkt, now time.Time) sim.Decision {
			switch {
			case pk.Type == sim.TSynAck:
				nSynAck++
				if nSynAck == 1 {
					switch synack {
					case 1:
						return sim.Decision{Drop: true}
					case 2:
						return sim.Decision{Delay: hs + 500*time.Millisecond}
					}
				}
			case pk.Type == sim.TData && !pk.Ping:
				nCData++
				if nCData <= 3 && cd&(1<<(nCData-1)) != 0 {
					return sim.Decision{Drop: true}
				}
			}
			return sim.Decision{}
		})
		p.S2C.SetDecider(func(idx int, pk sim.Pkt, now time.Time) sim.Decision {
			if pk.Type == sim.TData && !pk.Ping {
				nSData++
				if nSData <= 2 && sd&(1<<(nSData-1)) != 0 {
					return sim.Decision{Drop: true}
				}
			}
			return sim.Decision{}
		})
		var mu sync.Mutex
		var srvGot, cliGot []string
		var wg sync.WaitGroup
		app := func(g *gbn.GoBackNConn, tag string, got *[]string) {
			var w sync.WaitGroup
			w.Add(1)
			go func() {
				defer w.Done()
				if tag == "c1" && wait > 0 {
					time.Sleep(wait)
				}
				for i := 0; i < burst; i++ {
					if g.Send([]byte(fmt.Sprintf("%s-m%d", tag, i))) != nil {
						return
					}
				}
			}()
			for {
				b, err := g.Recv()
				if err != nil {
					break
				}
				mu.Lock()
				*got = append(*got, string(b))
				mu.Unlock()
			}
			_ = g.Close()
			w.Wait()
		}
		wg.Add(2)
		go func() {
			defer wg.Done()
			first := true
			for ctx.Err() == nil {
				g, err := gbn.NewServerConn(ctx, p.S2C.Send, p.C2S.Recv, conf.ServerOpts()...)
				if err != nil || g == nil {
					select {
					case <-ctx.Done():
					case <-time.After(100 * time.Millisecond):
					}
					continue
				}
				if !first {
					// later connections are not judged; keep the peer busy
					var sink []string
					app(g, "s-later", &sink)
					continue
				}
				first = false
				app(g, "s1", &srvGot)
			}
		}()
		go func() {
			defer wg.Done()
			time.Sleep(300 * time.Millisecond)
			g, err := gbn.NewClientConn(ctx, n, p.C2S.Send, p.S2C.Recv, conf.ClientOpts()...)
			if err != nil || g == nil {
				return
			}
			app(g, "c1", &cliGot)
		}()
		time.Sleep(90 * time.Second)
		mu.Lock()
		sg, cg := append([]string{}, srvGot...), append([]string{}, cliGot...)
		mu.Unlock()
		rep["server_received"], rep["client_received"] = sg, cg
		check := func(who, tag string, got []string) {
			// messages of the judged peer connection must be m0, m1, ... in
			// order; messages of a later connection of the peer may follow
			// a re-dial and are not judged
			next := 0
			for _, m := range got {
				if !strings.HasPrefix(m, tag+"-m") {
					continue
				}
				if m != fmt.Sprintf("%s-m%d", tag, next) {
					rep["wire_c2s"] = wireTail(p.C2S.Log(), 40)
					rep["wire_s2c"] = wireTail(p.S2C.Log(), 40)
					c.Shard.Violate("first-messages-not-a-prefix", fmt.Sprintf("%s's first connection received %q where message %d of the peer's first connection was due (received so far: %v)", who, m, next, got), rep)
					return
				}
				next++
			}
			c.Shard.Count("first_messages_delivered", int64(next))
		}
		check("server", "c1", sg)
		check("client", "s1", cg)
		cancel()
		p.C2S.Close()
		p.S2C.Close()
		wg.Wait()
		if lk := eng.Settle(); len(lk) > 0 {
			c.Shard.Inconc("leak after first-messages scenario (judged by C12): " + lk[0].CreatedBy())
			mon.FlushAndExit(c.Shard)
		}
	})
	c.Shard.Eval(key)
	if j%150 == 7 {
		c.Shard.Sample(rep)
	}
}
