package checks

import (
	"context"
	"fmt"
	"math"
	"sync"
	"testing"
	"testing/synctest"
	"time"

	"verifharness/eng"
	"verifharness/mon"
	"verifharness/sim"

	"github.com/lightninglabs/lightning-node-connect/gbn"
)

func TestC20(t *testing.T) {
	mon.Main(t, mon.Check{
		ID:    "C20",
		Level: "exploration",
		Rule:  "a real gbn.TimeoutManager is driven directly, inside a virtual-time bubble, with PRNG histories of 50-2000 Sent/Received events over SYN, SYNACK, DATA(seq), ACK(seq), NACK, FIN with arbitrary sequence numbers (ACKs for never-sent, resent and reused numbers included) and inter-event gaps from 0 to 1 h; multipliers 1..20, update frequencies 1..200, boost 1%..300% plus out-of-range values (0, negative: ignored by the option, the default 50% stays; 0.1%, 1000%, 5000%), static and adaptive mode, handshake timeouts 0.2-5 s. After every event GetResendTimeout/GetHandshakeTimeout are compared with a shadow derived from the statement: adaptive value >= 1 s; it is recomputed only at Received(ACK k) whose latest Sent(DATA k) was not a resend and was not consumed yet (and the update frequency permits), or at Received(SYN/SYNACK) with an unresent pending SYN, and then equals max(1s, multiplier*RTT); it increases only at Sent(DATA, resent) by exactly boost%*base and at most once per base interval; static mode: both timeouts constant. One case in ten instead samples the timeouts of live connections of the random fault engine at every packet they transmit (floor in adaptive mode, constancy in static mode). One case in twenty is a live handshake whose first 0-2 SYNs are lost over a link with multiplier x round trip above the floor (no loss: the value after the handshake must be multiplier x round trip; loss: the answered SYN is a retransmission and the value must still be the default), one in twenty a live NACK-driven retransmission whose acknowledgements are held back 1-2 s with multiplier 50 and update frequency 1 (only boosts may raise the value). Non-trivial = history with at least one fresh sample and one boost; distinct = hash of the event-kind sequence.",
		Assumptions: []string{
			"the shadow compares durations with a relative tolerance of 1e-5 (the implementation multiplies in float32)",
		},
		NCases: func(tier string) int {
			if tier == "thorough" {
				return 400000
			}
			return 3000
		},
		MinEvals: 100,
		Run:      runC20,
	})
}

// runC20Live samples the timeouts of live connections of the random fault
// engine at every packet they put on the wire.
func runC20Live(c *mon.Case) {
	sc := eng.RandScen(c.Rng, c.Tier, c.Idx)
	if len(sc.SizesA) > 200 {
		sc.SizesA = sc.SizesA[:200]
	}
	if len(sc.SizesB) > 200 {
		sc.SizesB = sc.SizesB[:200]
	}
	var mu sync.Mutex
	var samples int64
	var minRT, maxRT time.Duration
	var viol string
	hs := sc.Conf.HSTimeout
	if hs == 0 {
		hs = time.Second
	}
	mk := func(name string, conn func() *gbn.GoBackNConn) func(int, sim.Pkt) {
		return func(idx int, p sim.Pkt) {
			g := conn()
			if g == nil {
				return
			}
			st := g.VerifState()
			mu.Lock()
			defer mu.Unlock()
			samples++
			if minRT == 0 || st.ResendTimeout < minRT {
				minRT = st.ResendTimeout
			}
			if st.ResendTimeout > maxRT {
				maxRT = st.ResendTimeout
			}
			switch {
			case viol != "":
			case sc.Conf.Static && (st.ResendTimeout != sc.Conf.Resend || st.HandshakeTimeout != hs):
				viol = fmt.Sprintf("%s: statically configured timeouts changed on a live connection: resend %v (configured %v), handshake %v (configured %v)", name, st.ResendTimeout, sc.Conf.Resend, st.HandshakeTimeout, hs)
			case !sc.Conf.Static && st.ResendTimeout < time.Second:
				viol = fmt.Sprintf("%s: adaptive resend timeout %v below the 1 s floor on a live connection", name, st.ResendTimeout)
			}
		}
	}
	var pair *eng.Pair
	r := eng.RunScen(c.T, sc, eng.Hooks{
		OnLeak: leakHookInconc(c, sc),
		BeforeConnect: func(p *eng.Pair) {
			pair = p
			p.C2S.OnSend = mk("client", p.Client)
			p.S2C.OnSend = mk("server", p.Server)
		},
	})
	_ = pair
	if r.ConnErrC != nil || r.ConnErrS != nil {
		c.Shard.Inconc("handshake failed")
		return
	}
	if viol != "" {
		key := "live-below-floor"
		if sc.Conf.Static {
			key = "live-static-changed"
		}
		c.Shard.Violate(key, viol+" ["+sc.Conf.String()+"]", scenReplay(sc, r))
	}
	c.Shard.Count("live_samples", samples)
	c.Shard.Max("max_live_resend_timeout_ms", maxRT.Milliseconds())
	if samples > 0 {
		c.Shard.Eval(fmt.Sprintf("L|%v|%v|%v", sc.Conf.Static, minRT, maxRT))
	} else {
		c.Shard.Eval("")
	}
}

// runC20LiveHandshake: "recomputed only from round-trip samples of packets that
// were not retransmitted" where the caller of the timeout manager decides what
// counts as a retransmission: the client's handshake. The first k SYNs of a
// real NewClientConn are lost (k = 0 is the control), the link's round trip
// times the configured multiplier is well above the one-second floor, and the
// client's resend timeout is read through the hook the moment the constructor
// returns (nothing else has been sent). k = 0: the SYN's echo is a valid
// sample and the value must be multiplier x round trip. k > 0: the SYN that
// was answered is a retransmission, there is no valid sample, and the value
// must still be the one-second default.
func runC20LiveHandshake(c *mon.Case) {
	rng := c.Rng
	k := (c.Idx / 10) % 3
	mult := []int{5, 20, 50}[rng.Intn(3)]
	lat := time.Duration(150+rng.Intn(250)) * time.Millisecond // m*2*lat >= 1.5 s
	hs := time.Duration(1000+rng.Intn(1000)) * time.Millisecond
	conf := eng.GBNConf{N: []uint8{1, 5, 20}[rng.Intn(3)], Mult: mult, HSTimeout: hs, Lat: lat}
	rep := map[string]any{"kind": "live-handshake", "syns_lost": k, "conf": conf.String()}
	synctest.Test(c.T, func(t *testing.T) {
		ctx, cancel := context.WithCancel(context.Background())
		defer cancel()
		p := eng.NewPair(conf)
		syns := 0
		p.C2S.SetDecider(func(idx int, pk sim.Pkt, now time.Time) sim.Decision {
			if pk.Type == sim.TSyn {
				syns++
				if syns <= k {
					return sim.Decision{Drop: true}
				}
			}
			return sim.Decision{}
		})
		ce, se := p.Connect(ctx)
		if ce != nil || se != nil {
			c.Shard.Inconc(fmt.Sprintf("live handshake did not complete: %v / %v", ce, se))
			p.CloseAll()
			return
		}
		got := p.C.VerifState().ResendTimeout
		rtt := 2 * lat
		want := time.Second
		if k == 0 {
			want = time.Duration(mult) * rtt
		}
		rep["client_resend_timeout"], rep["expected"] = got.String(), want.String()
		diff := got - want
		if diff < 0 {
			diff = -diff
		}
		if diff > want/50 {
			key := "live-handshake|sample-from-retransmitted-syn"
			desc := fmt.Sprintf("the first %d SYNs were lost, the answered SYN was a retransmission: the client's resend timeout after the handshake is %v, not the %v default (multiplier %d, round trip %v)", k, got, want, mult, rtt)
			if k == 0 {
				key = "live-handshake|control"
				desc = fmt.Sprintf("clean handshake: the client's resend timeout is %v, expected multiplier x round trip = %v", got, want)
			}
			c.Shard.Violate(key, desc, rep)
		}
		cancel()
		p.CloseAll()
		if lk := eng.Settle(); len(lk) > 0 {
			c.Shard.Inconc("leak after live handshake (judged by C12): " + lk[0].CreatedBy())
			mon.FlushAndExit(c.Shard)
		}
	})
	c.Shard.Count("live_handshakes", 1)
	c.Shard.Eval(fmt.Sprintf("LH|%d|%d|%v", k, mult, lat))
	if c.Idx%300 == 8 {
		c.Shard.Sample(rep)
	}
}

// runC20LiveNack: the same question in the data phase, where the connection
// decides what it reports as a retransmission. The first transmission of the
// client's first data packet is lost, the second packet reaches the server,
// which answers with a NACK; the client retransmits its window because of that
// NACK. The acknowledgements of the retransmitted packets are held back for a
// second, every response is evaluated (update frequency 1) and the multiplier
// is 50: if a retransmitted packet's acknowledgement were taken as a round-trip
// sample the timeout would jump to about a minute. All that may legitimately
// happen to it are retransmission boosts of half a second each.
func runC20LiveNack(c *mon.Case) {
	rng := c.Rng
	lat := time.Duration(20+rng.Intn(60)) * time.Millisecond
	conf := eng.GBNConf{N: []uint8{2, 5, 20}[rng.Intn(3)], Mult: 50, Freq: 1, Lat: lat}
	hold := time.Duration(1000+rng.Intn(1000)) * time.Millisecond
	rep := map[string]any{"kind": "live-nack", "conf": conf.String(), "acks_held_back": hold.String()}
	synctest.Test(c.T, func(t *testing.T) {
		ctx, cancel := context.WithCancel(context.Background())
		defer cancel()
		p := eng.NewPair(conf)
		ce, se := p.Connect(ctx)
		if ce != nil || se != nil {
			c.Shard.Inconc(fmt.Sprintf("live handshake did not complete: %v / %v", ce, se))
			p.CloseAll()
			return
		}
		data, resends, nacks := 0, 0, 0
		seen := map[byte]bool{}
		p.C2S.SetDecider(func(idx int, pk sim.Pkt, now time.Time) sim.Decision {
			if pk.Type == sim.TData && !pk.Ping {
				data++
				if seen[pk.Seq] {
					resends++
				}
				seen[pk.Seq] = true
				if data == 1 {
					return sim.Decision{Drop: true}
				}
			}
			return sim.Decision{}
		})
		p.S2C.SetDecider(func(idx int, pk sim.Pkt, now time.Time) sim.Decision {
			if pk.Type == sim.TNack {
				nacks++
			}
			if pk.Type == sim.TAck && nacks > 0 {
				return sim.Decision{Delay: hold}
			}
			return sim.Decision{}
		})
		go func() {
			for {
				if _, err := p.S.Recv(); err != nil {
					return
				}
			}
		}()
		before := p.C.VerifState().ResendTimeout
		for i := 0; i < 2; i++ {
			if err := p.C.Send(eng.MsgBytes('a', i, 20)); err != nil {
				c.Shard.Inconc("live nack: send failed: " + err.Error())
				p.CloseAll()
				return
			}
		}
		time.Sleep(hold + 3*time.Second)
		got := p.C.VerifState().ResendTimeout
		rep["timeout_before"], rep["timeout_after"], rep["retransmissions_seen"], rep["nacks_seen"] = before.String(), got.String(), resends, nacks
		// every retransmission may boost the timeout by half of its base
		// value; nothing else may raise it here (no valid sample exceeds
		// the floor: 50 x round trip <= 8 s only if the round trip were
		// 160 ms, and the largest used here is 160 ms -> floor or 8 s)
		limit := before + time.Duration(resends+1)*before/2
		if valid := 50 * 2 * lat; valid > limit {
			limit = valid + valid/50
		}
		if nacks > 0 && got > limit {
			c.Shard.Violate("live-nack|sample-from-retransmitted-packet", fmt.Sprintf("after a NACK-driven retransmission whose acknowledgements were held back for %v the client's resend timeout is %v (before: %v; %d retransmissions seen allow at most %v through boosts, a valid sample at most %v)", hold, got, before, resends, before+time.Duration(resends+1)*before/2, 50*2*lat), rep)
		}
		if nacks > 0 {
			c.Shard.Count("live_nack_resends", 1)
		}
		cancel()
		p.CloseAll()
		if lk := eng.Settle(); len(lk) > 0 {
			c.Shard.Inconc("leak after live nack case (judged by C12): " + lk[0].CreatedBy())
			mon.FlushAndExit(c.Shard)
		}
	})
	c.Shard.Eval(fmt.Sprintf("LN|%v|%v|%d", lat, hold, conf.N))
	if c.Idx%300 == 18 {
		c.Shard.Sample(rep)
	}
}

func runC20(c *mon.Case) {
	if c.Idx%20 == 18 {
		runC20LiveNack(c)
		return
	}
	if c.Idx%10 == 9 {
		runC20Live(c)
		return
	}
	if c.Idx%10 == 8 && c.Idx%20 == 8 {
		runC20LiveHandshake(c)
		return
	}
	rng := c.Rng
	static := c.Idx%5 == 4
	mult := 1 + rng.Intn(20)
	freq := 1 + rng.Intn(200)
	if rng.Intn(2) == 0 {
		freq = 1 + rng.Intn(5)
	}
	boost := float32(1+rng.Intn(300)) / 100
	cfgBoost := boost
	if c.Idx%8 == 3 {
		// out-of-range configuration values: the option ignores a boost
		// that is not positive and the default of 50% stays in force
		// (a timeout may never shrink through a "boost")
		cfgBoost = []float32{0, -0.01, -0.5, -1, -3}[rng.Intn(5)]
		boost = 0.5
	} else if c.Idx%8 == 5 {
		boost = []float32{0.001, 10, 50}[rng.Intn(3)]
		cfgBoost = boost
	}
	hsT := time.Duration(200+rng.Intn(4800)) * time.Millisecond
	staticT := time.Duration(100+rng.Intn(9000)) * time.Millisecond
	nEv := 50 + rng.Intn(1950)
	if c.Tier != "thorough" && nEv > 600 {
		nEv = 50 + rng.Intn(550)
	}
	seqSpace := []int{2, 4, 21, 256}[rng.Intn(4)]
	rttBase := []time.Duration{0, time.Millisecond, 50 * time.Millisecond, 400 * time.Millisecond, 3 * time.Second}[rng.Intn(5)]

	opts := []gbn.TimeoutOptions{
		gbn.WithResendMultiplier(mult), gbn.WithTimeoutUpdateFrequency(freq),
		gbn.WithBoostPercent(cfgBoost), gbn.WithHandshakeTimeout(hsT),
	}
	if static {
		opts = append(opts, gbn.WithStaticResendTimeout(staticT))
	}
	rep := map[string]any{"static": static, "multiplier": mult, "frequency": freq, "boost_configured": cfgBoost, "boost_effective": boost, "handshake_timeout": hsT.String(), "events": nEv}

	var hist []string
	samples, boosts := 0, 0
	sig := uint64(1469598103934665603)
	synctest.Test(c.T, func(t *testing.T) {
		tm := gbn.NewTimeOutManager(nil, opts...)
		// shadow
		base := time.Second
		if static {
			base = staticT
		}
		boostCount := 0
		var lastBoost time.Time
		hasSet := false
		counter := 0
		fresh := map[uint8]time.Time{}
		var synT time.Time
		hsBoost := 0
		want := func() time.Duration {
			return base + time.Duration(float64(base)*float64(boost)*float64(boostCount))
		}
		wantHS := func() time.Duration {
			return hsT + time.Duration(float64(hsT)*float64(boost)*float64(hsBoost))
		}
		close2 := func(a, b time.Duration) bool {
			d := math.Abs(float64(a - b))
			return d <= 1e-5*math.Abs(float64(b))+float64(time.Microsecond)
		}
		update := func(rtt time.Duration) {
			nb := time.Duration(mult) * rtt
			if nb < time.Second {
				nb = time.Second
			}
			base, boostCount, lastBoost, hasSet = nb, 0, time.Now(), true
			samples++
		}
		prev := tm.GetResendTimeout()
		prevHS := tm.GetHandshakeTimeout()
		if !close2(prev, want()) || !close2(prevHS, wantHS()) {
			c.Shard.Violate("initial", fmt.Sprintf("initial timeouts resend=%v handshake=%v, expected %v / %v", prev, prevHS, want(), wantHS()), rep)
			return
		}
		for i := 0; i < nEv; i++ {
			// gap
			if getenv("C20_DEBUG") != "" {
				fmt.Println("event", i, "now", time.Now(), "base", base)
			}
			switch rng.Intn(10) {
			case 0:
			case 1:
				time.Sleep(time.Duration(rng.Int63n(int64(time.Hour))))
			case 2, 3:
				time.Sleep(rttBase + time.Duration(rng.Int63n(int64(50*time.Millisecond))))
			case 4:
				// exactly one base/boosted interval (bounded so that
				// the virtual clock cannot overflow)
				if w := want(); w < 2*time.Hour {
					time.Sleep(w)
				}
			case 5:
				if base < 2*time.Hour {
					time.Sleep(base + time.Duration(rng.Intn(3)-1))
				}
			default:
				time.Sleep(time.Duration(rng.Int63n(int64(2 * time.Second))))
			}
			seq := uint8(rng.Intn(seqSpace))
			kind := rng.Intn(12)
			var ev string
			allowChange := "none"
			switch kind {
			case 0, 1, 2:
				ev = fmt.Sprintf("Sent(DATA %d)", seq)
				tm.Sent(&gbn.PacketData{Seq: seq}, false)
				if !static {
					fresh[seq] = time.Now()
				}
			case 3:
				ev = fmt.Sprintf("Sent(DATA %d, resent)", seq)
				tm.Sent(&gbn.PacketData{Seq: seq}, true)
				if !static {
					delete(fresh, seq)
					if time.Since(lastBoost) >= base {
						boostCount++
						lastBoost = time.Now()
						boosts++
					}
					allowChange = "boost"
				}
			case 4, 5, 6:
				ev = fmt.Sprintf("Received(ACK %d)", seq)
				tm.Received(&gbn.PacketACK{Seq: seq})
				if t0, ok := fresh[seq]; ok && !static {
					delete(fresh, seq)
					counter++
					if !hasSet || counter%freq == 0 {
						counter = 0
						update(time.Since(t0))
						allowChange = "sample"
					}
				}
			case 7:
				ev = "Sent(SYN)"
				tm.Sent(&gbn.PacketSYN{N: 20}, false)
				if !static {
					synT = time.Now()
				}
			case 8:
				ev = "Sent(SYN, resent)"
				tm.Sent(&gbn.PacketSYN{N: 20}, true)
				if !static {
					synT = time.Time{}
					hsBoost++
				}
			case 9:
				ev = "Received(SYN)"
				if rng.Intn(2) == 0 {
					ev = "Received(SYNACK)"
					tm.Received(&gbn.PacketSYNACK{})
				} else {
					tm.Received(&gbn.PacketSYN{N: 20})
				}
				if !synT.IsZero() && !static {
					rtt := time.Since(synT)
					synT = time.Time{}
					update(rtt)
					allowChange = "sample"
				}
			case 10:
				ev = fmt.Sprintf("Received(NACK %d)", seq)
				tm.Received(&gbn.PacketNACK{Seq: seq})
			default:
				ev = "Sent(ACK)/Received(DATA)/FIN"
				tm.Sent(&gbn.PacketACK{Seq: seq}, false)
				tm.Received(&gbn.PacketData{Seq: seq})
				tm.Sent(&gbn.PacketFIN{}, false)
				tm.Received(&gbn.PacketFIN{})
				tm.Sent(&gbn.PacketSYNACK{}, false)
			}
			sig = (sig ^ uint64(kind)) * 1099511628211
			got, gotHS := tm.GetResendTimeout(), tm.GetHandshakeTimeout()
			if len(hist) < 4000 {
				hist = append(hist, fmt.Sprintf("%s -> resend=%v hs=%v", ev, got, gotHS))
			}
			fail := func(key, desc string) {
				h := hist
				if len(h) > 40 {
					h = h[len(h)-40:]
				}
				rep["history_tail"] = h
				c.Shard.Violate(key, desc+fmt.Sprintf(" (event #%d %s; mult=%d freq=%d boost=%.2f static=%v)", i, ev, mult, freq, boost, static), rep)
			}
			switch {
			case static && (got != staticT || gotHS != hsT):
				fail("static-changed", fmt.Sprintf("statically configured timeouts changed: resend %v (configured %v), handshake %v (configured %v)", got, staticT, gotHS, hsT))
				return
			case !static && got < time.Second:
				fail("below-floor", fmt.Sprintf("adaptive resend timeout %v is below the 1 s floor", got))
				return
			case !static && allowChange == "none" && got != prev:
				fail("changed-at-wrong-event", fmt.Sprintf("resend timeout changed from %v to %v at an event that is neither a fresh round-trip sample nor a retransmission", prev, got))
				return
			case !static && allowChange == "boost" && got < prev:
				fail("decreased-at-resend", fmt.Sprintf("resend timeout decreased from %v to %v at a retransmission", prev, got))
				return
			case !static && !close2(got, want()):
				fail("value|"+allowChange, fmt.Sprintf("resend timeout is %v, the statement implies %v (base %v, %d boost steps of %.0f%%)", got, want(), base, boostCount, boost*100))
				return
			case !static && !close2(gotHS, wantHS()):
				fail("handshake-value", fmt.Sprintf("handshake timeout is %v, expected %v", gotHS, wantHS()))
				return
			}
			prev = got
		}
	})
	c.Shard.Count("events", int64(nEv))
	c.Shard.Count("fresh_samples", int64(samples))
	c.Shard.Count("boosts", int64(boosts))
	if static || (samples > 0 && boosts > 0) {
		c.Shard.Eval(fmt.Sprintf("%v|%x", static, sig))
	} else {
		c.Shard.Eval("")
	}
	if c.Idx%500 == 0 {
		if len(hist) > 12 {
			hist = hist[:12]
		}
		rep["history_head"] = hist
		c.Shard.Sample(rep)
	}
}
