package checks

import (
	"context"
	"encoding/binary"
	"fmt"
	"math"
	"math/rand"
	"strings"
	"sync"
	"sync/atomic"
	"testing"
	"time"

	"verifharness/eng"
	"verifharness/mon"

	"github.com/anishathalye/porcupine"
	"github.com/lightninglabs/lightning-node-connect/gbn"
)

func TestC18(t *testing.T) {
	if !mon.RaceEnabled && testingMainRole() == "parent" {
		fmt.Println("CHECK-BROKEN property=C18: the check binary was built without -race; use ./run.sh C18 (which adds --race)")
		t.FailNow()
	}
	mon.Main(t, mon.Check{
		ID:    "C18",
		Level: "exploration",
		Rule:  "race-detector build of the real gbn code. Case kinds: (A) virtual-time scenarios with keepalive on (both peers the same ping interval, latency a multiple of it, static resend timeout equal to it, so ping, pong, resend expiries and packet arrivals share instants) while 2-3 senders, 1-2 receivers, a timeout setter and 0-2 closers per endpoint call the API concurrently; every Send/Recv call and return is stamped from one atomic logical clock and each direction's history (<=60 ops) is checked with porcupine against a FIFO queue model (failed/timed-out Sends stay open: they may or may not have taken effect); (B) real-time stress of IntervalAwareForceTicker in the two roles the connection's loops play; (C) real-time stress of TimeoutManager. Oracles: no race-detector report with a gbn frame, no worker death (panic), no stuck worker set (two goroutine censuses 5 s apart), porcupine Ok. (Q) direct real-time stress of the real queue with its syncer and timeout manager in the two roles of the connection's loops: send-loop role addPacket (while the window has room) / resend, receive-loop role processACK / processNACK with the values a peer sends and arbitrary ones; race detector plus the two-census deadlock rule. Non-trivial = at least two API goroutines overlapped with internal activity; distinct = (kind, N, latency, closers, senders, receivers, faults).",
		Assumptions: []string{
			"the race detector only sees accesses that the executed schedules performed",
			"porcupine verdict Unknown (timeout) is reported as inconclusive",
		},
		NCases: func(tier string) int {
			if tier == "thorough" {
				return 40000
			}
			return 480
		},
		MinEvals:   50,
		RaceLogs:   true,
		RaceFrames: []string{"lightning-node-connect/gbn"},
		Run:        runC18,
		Finish: func(sh *mon.Shard) {
			if eng.AnyFrozen.Load() {
				mon.FlushAndExit(sh)
			}
		},
	})
}

func testingMainRole() string {
	if getenv("VERIF_SHARD") != "" {
		return "child"
	}
	return "parent"
}

var logicalClock atomic.Int64

func stamp() int64 { return logicalClock.Add(1) }

type qIn struct {
	Enq bool
	ID  uint64
}
type qOut struct {
	ID    uint64
	Maybe bool // outcome unknown: the operation may or may not have taken effect
}

func queueModel() porcupine.Model {
	nm := porcupine.NondeterministicModel{
		Init: func() []interface{} { return []interface{}{""} },
		Step: func(st, in, out interface{}) []interface{} {
			s := st.(string)
			i := in.(qIn)
			o := out.(qOut)
			if i.Enq {
				ns := s + fmt.Sprintf("%x,", i.ID)
				if o.Maybe {
					return []interface{}{s, ns}
				}
				return []interface{}{ns}
			}
			// dequeue
			if o.Maybe {
				// A Recv that failed consumed nothing that the
				// application saw; but a chunk-less message is
				// handed over atomically, so state is unchanged.
				return []interface{}{s}
			}
			head := fmt.Sprintf("%x,", o.ID)
			if strings.HasPrefix(s, head) {
				return []interface{}{s[len(head):]}
			}
			return nil
		},
		DescribeOperation: func(in, out interface{}) string {
			i, o := in.(qIn), out.(qOut)
			if i.Enq {
				return fmt.Sprintf("Send(%x) maybe=%v", i.ID, o.Maybe)
			}
			return fmt.Sprintf("Recv()->%x fail=%v", o.ID, o.Maybe)
		},
	}
	return nm.ToModel()
}

func runC18(c *mon.Case) {
	if c.Idx%12 == 3 {
		runC18Queue(c)
		return
	}
	switch c.Idx % 6 {
	case 4:
		runC18Ticker(c)
	case 5:
		runC18TimeoutMgr(c)
	default:
		runC18Scenario(c)
	}
}

func runC18Scenario(c *mon.Case) {
	rng := c.Rng
	ping := []time.Duration{time.Second, 500 * time.Millisecond, 2 * time.Second}[rng.Intn(3)]
	conf := eng.GBNConf{
		N:     []uint8{1, 2, 3, 5, 20}[rng.Intn(5)],
		PingC: ping, PongC: ping, PingS: ping, PongS: ping,
		Static: rng.Intn(3) != 0, Resend: ping,
		Lat: []time.Duration{0, ping / 4, ping / 2, ping}[rng.Intn(4)],
	}
	if conf.Resend < 300*time.Millisecond {
		conf.Resend = 300 * time.Millisecond
	}
	nSend, nRecv, nClose := 2+rng.Intn(2), 1+rng.Intn(2), rng.Intn(3)
	perSender := 6
	faulty := rng.Intn(2) == 0
	sc := &eng.Scen{Conf: conf, Horizon: 5 * time.Minute}
	if faulty {
		sc.FaultC2S = eng.FaultSpec{Drop: 0.08, Dup: 0.05, Until: 20 * time.Second, Seed: rng.Int63()}
		sc.FaultS2C = eng.FaultSpec{Drop: 0.08, Dup: 0.05, Until: 20 * time.Second, Seed: rng.Int63()}
	}
	closeAt := time.Duration(rng.Intn(12)) * ping / 4
	seeds := make([]int64, 64)
	for i := range seeds {
		seeds[i] = rng.Int63()
	}

	type hist struct {
		mu  sync.Mutex
		ops []porcupine.Operation
	}
	var hAB, hBA hist // client->server, server->client
	var apiOverlap atomic.Int64

	during := func(ctx context.Context, p *eng.Pair, _, _ *eng.FlowResult) {
		var wg sync.WaitGroup
		runSide := func(name string, from, to *gbn.GoBackNConn, h *hist, side int) {
			for s := 0; s < nSend; s++ {
				wg.Add(1)
				go func(s int) {
					defer wg.Done()
					for i := 0; i < perSender; i++ {
						id := uint64(side)<<32 | uint64(s)<<16 | uint64(i)
						var b [8]byte
						binary.BigEndian.PutUint64(b[:], id)
						// gaps are multiples of ping/4 so that calls
						// coincide with timer expiries
						gap := time.Duration(seeds[(s*7+i)%64]%3) * ping / 4
						if gap > 0 {
							time.Sleep(gap)
						}
						call := stamp()
						apiOverlap.Add(1)
						err := from.Send(b[:])
						ret := stamp()
						op := porcupine.Operation{ClientId: side*10 + s, Input: qIn{Enq: true, ID: id}, Call: call, Output: qOut{ID: id}, Return: ret}
						if err != nil {
							op.Output = qOut{ID: id, Maybe: true}
							op.Return = math.MaxInt64 / 2
						}
						h.mu.Lock()
						h.ops = append(h.ops, op)
						h.mu.Unlock()
						if err != nil {
							return
						}
					}
				}(s)
			}
			for r := 0; r < nRecv; r++ {
				wg.Add(1)
				go func(r int) {
					defer wg.Done()
					for {
						call := stamp()
						b, err := to.Recv()
						ret := stamp()
						if err != nil {
							if strings.Contains(err.Error(), "timeout") {
								continue
							}
							return
						}
						var id uint64
						if len(b) == 8 {
							id = binary.BigEndian.Uint64(b)
						} else {
							id = math.MaxUint64
						}
						h.mu.Lock()
						h.ops = append(h.ops, porcupine.Operation{ClientId: side*10 + 5 + r, Input: qIn{}, Call: call, Output: qOut{ID: id}, Return: ret})
						h.mu.Unlock()
					}
				}(r)
			}
			// timeout setter
			wg.Add(1)
			go func() {
				defer wg.Done()
				for i := 0; i < 40; i++ {
					select {
					case <-from.VerifDone():
						return
					case <-time.After(ping / 4):
					}
					d := time.Hour
					if seeds[(i+side)%64]%9 == 0 {
						d = ping / 2
					}
					from.SetSendTimeout(d)
					from.SetRecvTimeout(d)
				}
				from.SetSendTimeout(time.Duration(math.MaxInt64))
				from.SetRecvTimeout(time.Duration(math.MaxInt64))
			}()
		}
		runSide("C", p.C, p.S, &hAB, 1)
		runSide("S", p.S, p.C, &hBA, 2)
		for k := 0; k < nClose; k++ {
			wg.Add(1)
			go func(k int) {
				defer wg.Done()
				time.Sleep(closeAt)
				if (k+int(seeds[0]))%2 == 0 {
					_ = p.C.Close()
				} else {
					_ = p.S.Close()
				}
			}(k)
		}
		// When nobody closes, end the conversation after a while so that
		// the receivers come back.
		wg.Add(1)
		go func() {
			defer wg.Done()
			select {
			case <-time.After(90 * time.Second):
			case <-p.C.VerifDone():
			case <-p.S.VerifDone():
			}
			time.Sleep(5 * time.Second)
			_ = p.C.Close()
			_ = p.S.Close()
		}()
		wg.Wait()
	}

	r, frozen := eng.RunScenGuarded(c.T, sc, eng.Hooks{During: during, WaitDuring: true, OnLeak: leakHookInconc(c, sc)}, 90*time.Second)
	if frozen {
		// a lock-order deadlock freezes a bubble, but so does a harmless
		// mutex held across a timed wait: repeat on the real clock and
		// apply the two-census rule
		stuck := eng.DeadlockProbe(sc, eng.Hooks{During: during, WaitDuring: true}, 40*time.Second)
		if len(stuck) > 0 {
			var st []string
			for _, g := range stuck {
				st = append(st, g.Stack)
			}
			c.Shard.Violate("deadlock|scenario",
				fmt.Sprintf("%d goroutine(s) of gbn have been waiting for a mutex for more than 5 s of real time while the API was used concurrently (first in %s) [%s]", len(stuck), stuck[0].TopFrame(), conf.String()),
				map[string]any{"stacks": st})
		} else {
			c.Shard.Inconc(fmt.Sprintf("case %d: the bubble froze and the real-time repetition showed no deadlock", c.Idx))
		}
		c.Shard.Eval("")
		return
	}
	if r.ConnErrC != nil || r.ConnErrS != nil {
		c.Shard.Inconc(fmt.Sprintf("handshake failed: %v / %v", r.ConnErrC, r.ConnErrS))
		return
	}
	model := queueModel()
	for _, h := range []*hist{&hAB, &hBA} {
		h.mu.Lock()
		ops := append([]porcupine.Operation{}, h.ops...)
		h.mu.Unlock()
		if len(ops) == 0 {
			continue
		}
		res, _ := porcupine.CheckOperationsVerbose(model, ops, 20*time.Second)
		c.Shard.Count("porcupine_histories", 1)
		c.Shard.Count("porcupine_ops", int64(len(ops)))
		switch res {
		case porcupine.Illegal:
			var desc []string
			for _, o := range ops {
				desc = append(desc, fmt.Sprintf("[%d..%d] c%d %s", o.Call, o.Return, o.ClientId, model.DescribeOperation(o.Input, o.Output)))
			}
			c.Shard.Violate("fifo-linearizability",
				fmt.Sprintf("history of %d concurrent Send/Recv operations is not a linearization of a FIFO queue (%s)", len(ops), conf.String()),
				map[string]any{"history": desc, "scenario": scenReplay(sc, r)})
		case porcupine.Unknown:
			c.Shard.Inconc("porcupine timed out on a history of " + fmt.Sprint(len(ops)) + " ops")
		}
	}
	c.Shard.Count("api_calls", apiOverlap.Load())
	c.Shard.Eval(fmt.Sprintf("A|N=%d|lat=%v|close=%d|s=%d|r=%d|f=%v|ping=%v|static=%v", conf.N, conf.Lat, nClose, nSend, nRecv, faulty, ping, conf.Static))
	if c.Idx%60 == 0 {
		c.Shard.Sample(map[string]any{"kind": "A", "conf": conf.String(), "senders": nSend, "receivers": nRecv, "closers": nClose, "closeAt": closeAt.String(), "ops_ab": len(hAB.ops), "ops_ba": len(hBA.ops)})
	}
}

// stuckCheck waits for wg with a generous real-time limit; if the workers do
// not come back it applies the two-census rule.
func stuckCheck(c *mon.Case, what string, wg *sync.WaitGroup, progress *atomic.Int64) bool {
	done := make(chan struct{})
	go func() { wg.Wait(); close(done) }()
	select {
	case <-done:
		return true
	case <-time.After(60 * time.Second):
	}
	p1 := progress.Load()
	d1 := eng.LeakedIn("lightning-node-connect/gbn")
	time.Sleep(5 * time.Second)
	p2 := progress.Load()
	d2 := eng.LeakedIn("lightning-node-connect/gbn")
	if p1 == p2 && len(d1) > 0 && len(d2) > 0 {
		var st []string
		for _, g := range d2 {
			st = append(st, g.Stack)
		}
		c.Shard.Violate("deadlock|"+what,
			fmt.Sprintf("%s: no worker completed an operation for 5 s and %d goroutines are parked in gbn code", what, len(d2)),
			map[string]any{"stacks": st})
	} else {
		c.Shard.Inconc(what + ": workers slow but progressing")
	}
	return false
}

// runC18Ticker stresses IntervalAwareForceTicker in the two roles the
// connection's loops play: the send loop consumes ticks and calls Reset /
// Resume, the receive loop calls Reset and IsActive / Pause.
func runC18Ticker(c *mon.Case) {
	rng := c.Rng
	interval := time.Duration(1+rng.Intn(5)) * time.Millisecond
	var pauses [64]time.Duration
	for i := range pauses {
		if rng.Intn(4) == 0 {
			pauses[i] = time.Duration(rng.Intn(300)) * time.Microsecond
		}
	}
	runFor := time.Duration(60+rng.Intn(60)) * time.Millisecond
	ping := gbn.NewIntervalAwareForceTicker(interval)
	pong := gbn.NewIntervalAwareForceTicker(interval)
	ping.Resume()
	var progress atomic.Int64
	stop := make(chan struct{})
	var wg sync.WaitGroup
	wg.Add(2)
	go func() { // send-loop role
		defer wg.Done()
		for {
			select {
			case <-stop:
				return
			case <-ping.Ticks():
				select {
				case <-pong.Ticks():
				default:
				}
				pong.Reset()
				pong.Resume()
				ping.Reset()
			case <-pong.Ticks():
			}
			progress.Add(1)
		}
	}()
	go func() { // receive-loop role
		defer wg.Done()
		for {
			select {
			case <-stop:
				return
			default:
			}
			ping.Reset()
			if pong.IsActive() {
				pong.Pause()
			}
			progress.Add(1)
			if pauses[progress.Load()%64] > 0 {
				time.Sleep(pauses[progress.Load()%64])
			}
		}
	}()
	time.Sleep(runFor)
	close(stop)
	if !stuckCheck(c, "ticker stress", &wg, &progress) {
		return
	}
	// As Close does, once the loops are gone.
	var swg sync.WaitGroup
	swg.Add(1)
	go func() { defer swg.Done(); ping.Stop(); pong.Stop() }()
	if !stuckCheck(c, "ticker stop", &swg, &progress) {
		return
	}
	c.Shard.Count("ticker_ops", progress.Load())
	c.Shard.Eval(fmt.Sprintf("B|%v", interval))
}

// runC18TimeoutMgr stresses TimeoutManager the way a connection does.
func runC18TimeoutMgr(c *mon.Case) {
	rng := c.Rng
	var opts []gbn.TimeoutOptions
	static := rng.Intn(3) == 0
	if static {
		opts = append(opts, gbn.WithStaticResendTimeout(time.Second))
	} else {
		opts = append(opts, gbn.WithTimeoutUpdateFrequency(1+rng.Intn(5)), gbn.WithResendMultiplier(1+rng.Intn(5)))
	}
	tm := gbn.NewTimeOutManager(nil, opts...)
	var progress atomic.Int64
	stop := make(chan struct{})
	var wg sync.WaitGroup
	loop := func(f func(i int)) {
		wg.Add(1)
		go func() {
			defer wg.Done()
			for i := 0; ; i++ {
				select {
				case <-stop:
					return
				default:
				}
				f(i)
				progress.Add(1)
			}
		}()
	}
	loop(func(i int) { // send loop
		tm.Sent(&gbn.PacketData{Seq: uint8(i % 21)}, i%7 == 0)
		_ = tm.GetResendTimeout()
	})
	loop(func(i int) { // resend path (queue.resend) runs in the send loop too; syncer goroutines read the timeout
		_ = tm.GetResendTimeout()
		_ = tm.GetHandshakeTimeout()
	})
	loop(func(i int) { // receive loop
		tm.Received(&gbn.PacketACK{Seq: uint8(i % 21)})
		_ = tm.GetResendTimeout()
		_ = tm.GetPingTime()
		_ = tm.GetPongTime()
	})
	loop(func(i int) { // API goroutines
		tm.SetSendTimeout(time.Duration(i))
		tm.SetRecvTimeout(time.Duration(i))
		_ = tm.GetSendTimeout()
		_ = tm.GetRecvTimeout()
		_ = tm.GetFinSendTimeout()
	})
	loop(func(i int) { // handshake events as the constructors issue them
		tm.Sent(&gbn.PacketSYN{N: 20}, i%3 == 0)
		tm.Received(&gbn.PacketSYN{N: 20})
	})
	time.Sleep(time.Duration(40+rng.Intn(40)) * time.Millisecond)
	close(stop)
	if !stuckCheck(c, "timeout manager stress", &wg, &progress) {
		return
	}
	c.Shard.Count("timeoutmgr_ops", progress.Load())
	c.Shard.Eval(fmt.Sprintf("C|static=%v", static))
}

// runC18Queue stresses the real send queue (with its syncer and timeout
// manager) in exactly the two roles the connection's loops play: the send loop
// adds a packet while the window has room and resends the window (then waits
// for the sync), the receive loop feeds ACKs and NACKs - mostly the ones a peer
// would send, sometimes any value of the sequence space. Real time, tiny
// timeouts; the race detector watches and the two-census rule decides about
// deadlocks.
func runC18Queue(c *mon.Case) {
	rng := c.Rng
	n := []uint8{1, 2, 3, 5, 20, 127, 254}[rng.Intn(7)]
	s := n + 1
	rt := time.Duration(200+rng.Intn(2000)) * time.Microsecond
	q := gbn.VerifNewQueueWith(s, nil, gbn.WithStaticResendTimeout(rt), gbn.WithHandshakeTimeout(rt))
	// A third goroutine plays the application's timeout setters (write lock
	// of the timeout manager) while resend and its sync wait read from it.
	tm := q.TimeoutManager()
	runFor := time.Duration(80+rng.Intn(80)) * time.Millisecond
	seedS, seedR := rng.Int63(), rng.Int63()
	var progress, adds, resends, acks atomic.Int64
	stop := make(chan struct{})
	var wg sync.WaitGroup
	wg.Add(3)
	go func() { // application role: the timeout setters and getters
		defer wg.Done()
		for i := 0; ; i++ {
			select {
			case <-stop:
				return
			default:
			}
			tm.SetSendTimeout(time.Duration(i%7) * time.Millisecond)
			tm.SetRecvTimeout(time.Duration(i%5) * time.Millisecond)
			_ = tm.GetSendTimeout()
			_ = tm.GetRecvTimeout()
			progress.Add(1)
			if i%64 == 0 {
				time.Sleep(20 * time.Microsecond)
			}
		}
	}()
	go func() { // send-loop role
		defer wg.Done()
		r := rand.New(rand.NewSource(seedS))
		for {
			select {
			case <-stop:
				return
			default:
			}
			_, _, size := q.State()
			if size < n && r.Intn(4) != 0 {
				sq := q.Add()
				tm.Sent(&gbn.PacketData{Seq: sq}, false)
				adds.Add(1)
			} else {
				_ = q.Resend()
				resends.Add(1)
			}
			progress.Add(1)
		}
	}()
	go func() { // receive-loop role
		defer wg.Done()
		r := rand.New(rand.NewSource(seedR))
		for {
			select {
			case <-stop:
				return
			default:
			}
			base, top, size := q.State()
			var seq uint8
			switch x := r.Intn(10); {
			case x < 6: // the ACK a peer sends next
				seq = base
			case x < 8 && size > 0: // a later one (an earlier ACK was lost)
				seq = uint8((int(base) + r.Intn(int(size))) % int(s))
			case x < 9:
				seq = top
			default:
				seq = uint8(r.Intn(int(s)))
			}
			if r.Intn(5) == 0 {
				tm.Received(&gbn.PacketNACK{Seq: seq})
				q.NACK(seq)
			} else {
				tm.Received(&gbn.PacketACK{Seq: seq})
				q.ACK(seq)
			}
			acks.Add(1)
			progress.Add(1)
			if r.Intn(8) == 0 {
				time.Sleep(time.Duration(r.Intn(300)) * time.Microsecond)
			}
		}
	}()
	time.Sleep(runFor)
	close(stop)
	if !stuckCheck(c, "queue stress (send-loop role: addPacket/Sent/resend, receive-loop role: Received/processACK/processNACK, application role: timeout setters)", &wg, &progress) {
		return
	}
	base, top, size := q.State()
	if base >= s || top >= s || size > n {
		c.Shard.Violate("queue-state", fmt.Sprintf("after the concurrent stress the queue is at base=%d top=%d size=%d with n=%d s=%d", base, top, size, n, s), nil)
	}
	q.Stop()
	c.Shard.Count("queue_ops", progress.Load())
	c.Shard.Count("queue_resend_calls", resends.Load())
	c.Shard.Count("queue_adds", adds.Load())
	c.Shard.Count("queue_acks_nacks", acks.Load())
	c.Shard.Eval(fmt.Sprintf("Q|%d|%v", n, rt))
}
