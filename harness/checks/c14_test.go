package checks

import (
	"context"
	"fmt"
	"strings"
	"sync/atomic"
	"testing"
	"testing/synctest"
	"time"

	"verifharness/eng"
	"verifharness/mon"
	"verifharness/sim"

	"github.com/lightninglabs/lightning-node-connect/gbn"
)

const c14M = 8 // largest chunk size of the exhaustive slice

func TestC14(t *testing.T) {
	mon.Main(t, mon.Check{
		ID:    "C14",
		Level: "exploration",
		Rule:  fmt.Sprintf("case kinds: (E) exhaustive small domain: for every maxChunkSize in {0,1..%d} and every first length a in 0..%d, all (b,c) in (0..%d)^2 are sent as the message triple (a,b,c) back to back over one real connection (all sequences of 1-3 messages of lengths 0..3M+1 occur as sub-sequences), alternating directions; (R) random payloads up to 1 MiB with chunk sizes {1,3,7,64,1000,32768} with and without link faults; in E and R the receiving endpoint's own chunk option differs from the sender's in about half of the cases (off, or another size: the option is local to the sender); (T) deadline cases: SetRecvTimeout / SetSendTimeout chosen so that the timer fires between two chunks of one message (a link delay is placed before a chosen chunk / the window is made full after a chosen chunk by delaying ACKs), the timed-out call is retried until it succeeds. Oracle: the list of Recv results equals, in number and bytes, the list of messages whose Send succeeded. Non-trivial = a case in which at least one message spanned >=2 chunks or was empty; distinct = (kind, chunk size, lengths / timeout placement).", c14M, 3*c14M+1, 3*c14M+1),
		Assumptions: []string{
			"one sender and one receiver goroutine per direction (concurrent Send calls interleave chunks by design)",
			"the exhaustive slice enumerates lengths and chunk sizes completely, not schedules",
		},
		NCases: func(tier string) int {
			e := (c14M + 1) * (3*c14M + 2)
			if tier == "thorough" {
				return e + 30000
			}
			return e + 260
		},
		MinEvals: 100,
		Run:      runC14,
	})
}

func runC14(c *mon.Case) {
	e := (c14M + 1) * (3*c14M + 2)
	switch {
	case c.Idx < e:
		runC14Exhaustive(c, c.Idx/(3*c14M+2), c.Idx%(3*c14M+2))
	case (c.Idx-e)%2 == 0:
		runC14Random(c)
	default:
		runC14Deadline(c)
	}
}

// xfer sends msgs from `from` to `to` and returns what Recv produced.
func xfer(from, to *gbn.GoBackNConn, dir byte, sizes []int, horizon time.Duration) (got [][]byte, sendErr, recvErr error, timedOut bool) {
	done := make(chan struct{})
	go func() {
		defer close(done)
		for range sizes {
			b, err := to.Recv()
			if err != nil {
				recvErr = err
				return
			}
			got = append(got, b)
		}
	}()
	sdone := make(chan struct{})
	go func() {
		defer close(sdone)
		for i, sz := range sizes {
			if err := from.Send(eng.MsgBytes(dir, i, sz)); err != nil {
				sendErr = err
				return
			}
		}
	}()
	select {
	case <-done:
	case <-time.After(horizon):
		timedOut = true
	}
	return
}

func compareMsgs(dir byte, sizes []int, got [][]byte, upto int) string {
	if len(got) > upto {
		return fmt.Sprintf("%d Recv results for %d successful Sends", len(got), upto)
	}
	for i, b := range got {
		exp := eng.MsgBytes(dir, i, sizes[i])
		if string(b) != string(exp) {
			return fmt.Sprintf("Recv #%d returned %d bytes, Send #%d had %d bytes (%s)", i, len(b), i, len(exp), diffKind(b, exp, dir, sizes, i))
		}
	}
	return ""
}

func diffKind(b, exp []byte, dir byte, sizes []int, i int) string {
	if i+1 < len(sizes) {
		next := eng.MsgBytes(dir, i+1, sizes[i+1])
		if string(b) == string(exp)+string(next) {
			return "merged with the next message"
		}
		if string(b) == string(next) {
			return "message dropped: got the next one"
		}
	}
	if len(b) < len(exp) && strings.HasPrefix(string(exp), string(b)) {
		return "split: only a prefix returned"
	}
	if len(b) < len(exp) && strings.HasSuffix(string(exp), string(b)) {
		return "head lost: only the tail returned"
	}
	return "bytes differ"
}

func runC14Exhaustive(c *mon.Case, chunk, a int) {
	L := 3*c14M + 1
	var sizes []int
	for b := 0; b <= L; b++ {
		for cc := 0; cc <= L; cc++ {
			sizes = append(sizes, a, b, cc)
		}
	}
	conf := eng.GBNConf{N: []uint8{1, 2, 5, 20}[(chunk+a)%4], Chunk: chunk, Static: true, Resend: time.Second, Lat: time.Millisecond}
	// The maximum chunk size is an option of the sending side only: in two
	// thirds of the cases the receiving endpoint is configured differently
	// (splitting off, or another size).
	serverSends := (chunk+a)%2 == 1
	if a%3 != 0 {
		rc := 0
		if a%3 == 2 {
			rc = chunk%c14M + 1
		}
		conf.ChunkSrvSet = true
		if serverSends {
			conf.Chunk, conf.ChunkSrv = rc, chunk
		} else {
			conf.Chunk, conf.ChunkSrv = chunk, rc
		}
	}
	rep := map[string]any{"kind": "E", "chunk": chunk, "first_len": a, "conf": conf.String()}
	synctest.Test(c.T, func(t *testing.T) {
		ctx, cancel := context.WithCancel(context.Background())
		defer cancel()
		p := eng.NewPair(conf)
		ce, se := p.Connect(ctx)
		if ce != nil || se != nil {
			c.Shard.Inconc(fmt.Sprintf("handshake failed: %v / %v", ce, se))
			p.CloseAll()
			return
		}
		from, to, dir := p.C, p.S, byte('a')
		if (chunk+a)%2 == 1 {
			from, to, dir = p.S, p.C, 'b'
		}
		got, serr, rerr, to2 := xfer(from, to, dir, sizes, 2*time.Hour)
		if serr != nil || rerr != nil || to2 {
			c.Shard.Violate("xfer-incomplete", fmt.Sprintf("clean link, chunk=%d: transfer did not complete: sendErr=%v recvErr=%v timedOut=%v after %d of %d messages", chunk, serr, rerr, to2, len(got), len(sizes)), rep)
		}
		if d := compareMsgs(dir, sizes, got, len(sizes)); d != "" {
			c.Shard.Violate("boundary|exhaustive", fmt.Sprintf("chunk=%d: %s", chunk, d), rep)
		}
		c.Shard.Count("messages", int64(len(got)))
		p.CloseAll()
		cancel()
		if lk := eng.Settle(); len(lk) > 0 {
			c.Shard.Inconc("leak (judged by C12)")
			mon.FlushAndExit(c.Shard)
		}
	})
	c.Shard.Count("triples", int64(len(sizes)/3))
	c.Shard.Eval(fmt.Sprintf("E|chunk=%d|a=%d", chunk, a))
	if a == 0 && chunk%4 == 0 {
		c.Shard.Sample(rep)
	}
}

func runC14Random(c *mon.Case) {
	rng := c.Rng
	chunk := []int{1, 7, 1000, 32768, 3, 64}[rng.Intn(6)]
	n := 1 + rng.Intn(6)
	sizes := make([]int, n)
	maxLen := 1 << 20
	if chunk < 64 {
		maxLen = 6000
	} else if chunk <= 1000 {
		maxLen = 200000
	}
	for i := range sizes {
		switch rng.Intn(6) {
		case 0:
			sizes[i] = 0
		case 1:
			sizes[i] = chunk * (1 + rng.Intn(4)) // exact multiple
			if sizes[i] > maxLen {
				sizes[i] = chunk
			}
		case 2:
			sizes[i] = chunk*(1+rng.Intn(3)) + 1
			if sizes[i] > maxLen {
				sizes[i] = chunk + 1
			}
		default:
			sizes[i] = rng.Intn(maxLen + 1)
		}
	}
	sc := &eng.Scen{Conf: eng.RandConf(rng, eng.PickN(c.Tier, c.Idx)), Horizon: 6 * time.Hour}
	sc.Conf.Chunk = chunk
	sc.Conf.PingC, sc.Conf.PingS = 0, 0 // closure would only cut the run short
	sc.SizesA, sc.SizesB = sizes, nil
	if rng.Intn(2) == 0 {
		sc.SizesA, sc.SizesB = nil, sizes
		// the server sends: the client may be configured differently
		if rng.Intn(2) == 0 {
			sc.Conf.ChunkSrvSet, sc.Conf.ChunkSrv = true, chunk
			sc.Conf.Chunk = []int{0, 1, chunk + 1}[rng.Intn(3)]
		}
	} else if rng.Intn(2) == 0 {
		sc.Conf.ChunkSrvSet, sc.Conf.ChunkSrv = true, []int{0, 1, chunk + 1}[rng.Intn(3)]
	}
	if rng.Intn(3) != 0 {
		sc.FaultC2S = eng.RandFault(rng, time.Second)
		sc.FaultS2C = eng.RandFault(rng, time.Second)
		sc.FaultC2S.Until, sc.FaultS2C.Until = 20*time.Second, 20*time.Second
	}
	r := eng.RunScen(c.T, sc, eng.Hooks{OnLeak: leakHookInconc(c, sc)})
	if r.ConnErrC != nil || r.ConnErrS != nil {
		c.Shard.Inconc("handshake failed")
		return
	}
	for _, f := range []*eng.FlowResult{r.A, r.B} {
		if ok, what := eng.PrefixVerdict(f); !ok {
			c.Shard.Violate("boundary|random", fmt.Sprintf("chunk=%d: %s", chunk, what), scenReplay(sc, r))
		}
		acc, del, _ := f.Snapshot()
		if r.Completed && del != acc {
			c.Shard.Violate("count|random", fmt.Sprintf("chunk=%d: %d successful Sends but %d Recv results", chunk, acc, del), scenReplay(sc, r))
		}
		c.Shard.Count("messages", int64(del))
	}
	_, faults := eng.TraceSig(r.LogC2S, r.LogS2C)
	c.Shard.Eval(fmt.Sprintf("R|chunk=%d|n=%d|faults=%v|%d", chunk, n, faults > 0, sizes[0]))
	if c.Idx%50 == 0 {
		m := scenReplay(sc, r)
		m["kind"] = "R"
		m["sizes"] = sizes
		c.Shard.Sample(m)
	}
}

// runC14Deadline places a receive or send deadline between two chunks of a
// message and retries the timed-out call.
func runC14Deadline(c *mon.Case) {
	rng := c.Rng
	chunk := 1 + rng.Intn(8)
	nmsg := 2 + rng.Intn(3)
	sizes := make([]int, nmsg)
	for i := range sizes {
		sizes[i] = chunk*(1+rng.Intn(4)) + rng.Intn(chunk)*rng.Intn(2)
	}
	recvSide := rng.Intn(2) == 0
	n := uint8(1 + rng.Intn(3))
	timeout := 200 * time.Millisecond
	delay := time.Duration(300+rng.Intn(900)) * time.Millisecond
	// Which DATA packet (counted from the start of the data phase) gets
	// the delay in front of it / which ACK is held back.
	totalChunks := 0
	for _, s := range sizes {
		totalChunks += (s + chunk - 1) / chunk
	}
	victim := rng.Intn(totalChunks)
	conf := eng.GBNConf{N: n, Chunk: chunk, Static: true, Resend: 5 * time.Second, Lat: time.Millisecond}
	rep := map[string]any{"kind": "T", "conf": conf.String(), "sizes": sizes, "recv_side": recvSide, "victim_packet": victim, "delay": delay.String(), "timeout": timeout.String()}
	var timeouts atomic.Int64
	synctest.Test(c.T, func(t *testing.T) {
		ctx, cancel := context.WithCancel(context.Background())
		defer cancel()
		p := eng.NewPair(conf)
		ce, se := p.Connect(ctx)
		if ce != nil || se != nil {
			c.Shard.Inconc("handshake failed")
			p.CloseAll()
			return
		}
		time.Sleep(time.Second)
		dataIdx, ackIdx := 0, 0
		if recvSide {
			// delay one DATA packet on the way to the receiver
			p.C2S.SetDecider(func(idx int, pk sim.Pkt, now time.Time) sim.Decision {
				if pk.Type == sim.TData && !pk.Ping {
					dataIdx++
					if dataIdx-1 == victim {
						return sim.Decision{Delay: delay}
					}
				}
				return sim.Decision{}
			})
			p.S.SetRecvTimeout(timeout)
		} else {
			// hold back one ACK so that the window stays full
			p.S2C.SetDecider(func(idx int, pk sim.Pkt, now time.Time) sim.Decision {
				if pk.Type == sim.TAck {
					ackIdx++
					if ackIdx-1 == victim {
						return sim.Decision{Delay: delay}
					}
				}
				return sim.Decision{}
			})
			p.C.SetSendTimeout(timeout)
		}
		var got [][]byte
		rdone := make(chan struct{})
		go func() {
			defer close(rdone)
			for len(got) < len(sizes) {
				b, err := p.S.Recv()
				if err != nil {
					if strings.Contains(err.Error(), "timeout") {
						timeouts.Add(1)
						continue
					}
					return
				}
				got = append(got, b)
			}
		}()
		sent := 0
		for i := 0; i < len(sizes); i++ {
			for try := 0; try < 50; try++ {
				err := p.C.Send(eng.MsgBytes('a', i, sizes[i]))
				if err == nil {
					sent++
					break
				}
				if !strings.Contains(err.Error(), "timeout") {
					i = len(sizes)
					break
				}
				timeouts.Add(1)
			}
		}
		select {
		case <-rdone:
		case <-time.After(time.Minute):
		}
		// Nothing further may arrive.
		p.S.SetRecvTimeout(2 * time.Second)
		if len(got) == len(sizes) {
			if b, err := p.S.Recv(); err == nil {
				got = append(got, b)
			}
		}
		if d := compareMsgs('a', sizes, got, sent); d != "" {
			side := "send"
			if recvSide {
				side = "recv"
			}
			c.Shard.Violate("boundary|deadline-"+side, fmt.Sprintf("chunk=%d, %s timeout %v placed at packet %d (delay %v), call retried: %s", chunk, side, timeout, victim, delay, d), rep)
		} else if len(got) != sent {
			c.Shard.Violate("count|deadline", fmt.Sprintf("%d successful Sends but %d Recv results within a virtual minute", sent, len(got)), rep)
		}
		p.CloseAll()
		cancel()
		if lk := eng.Settle(); len(lk) > 0 {
			c.Shard.Inconc("leak (judged by C12)")
			mon.FlushAndExit(c.Shard)
		}
	})
	c.Shard.Count("deadline_timeouts_hit", timeouts.Load())
	if timeouts.Load() > 0 {
		c.Shard.Eval(fmt.Sprintf("T|chunk=%d|recv=%v|victim=%d/%d", chunk, recvSide, victim, totalChunks))
	} else {
		c.Shard.Eval("")
	}
	if c.Idx%50 == 1 {
		rep["timeouts_hit"] = timeouts.Load()
		c.Shard.Sample(rep)
	}
}
