package checks

import (
	"fmt"
	"testing"

	"verifharness/eng"
	"verifharness/mon"
)

// scenReplay is the replay record of a GBN scenario.
func scenReplay(sc *eng.Scen, r *eng.ScenResult) map[string]any {
	m := map[string]any{
		"conf":      sc.Conf.String(),
		"fault_c2s": sc.FaultC2S.String(),
		"fault_s2c": sc.FaultS2C.String(),
		"msgs_a":    len(sc.SizesA),
		"msgs_b":    len(sc.SizesB),
		"write_err": fmt.Sprintf("c2s write #%d, s2c write #%d (0 = none)", sc.WriteErrC2S, sc.WriteErrS2C),
	}
	if r != nil {
		m["elapsed_virtual"] = r.Elapsed.String()
		m["completed"] = r.Completed
		if r.A != nil {
			acc, del, last := r.A.Snapshot()
			m["flow_a"] = fmt.Sprintf("accepted=%d delivered=%d lastRecv=%v sendErr=%v recvErr=%v", acc, del, last, r.A.SendErr, r.A.RecvErr)
		}
		if r.B != nil {
			acc, del, last := r.B.Snapshot()
			m["flow_b"] = fmt.Sprintf("accepted=%d delivered=%d lastRecv=%v sendErr=%v recvErr=%v", acc, del, last, r.B.SendErr, r.B.RecvErr)
		}
		m["wire_tail_c2s"] = wireTail(r.LogC2S, 60)
		m["wire_tail_s2c"] = wireTail(r.LogS2C, 60)
	}
	return m
}

func leakHook(c *mon.Case, sc *eng.Scen) func(r *eng.ScenResult) {
	return func(r *eng.ScenResult) {
		g := r.Leaked[0]
		c.Shard.Violate("leak|"+g.CreatedBy(),
			fmt.Sprintf("%d goroutine(s) of the connection still alive after Close of both ends; first: created by %s, parked in %s [%s]",
				len(r.Leaked), g.CreatedBy(), g.TopFrame(), g.State),
			map[string]any{"scenario": scenReplay(sc, nil), "stack": g.Stack})
		mon.FlushAndExit(c.Shard)
	}
}

// leakHookInconc is used by checks whose property is not about leaks: a bubble
// with leaked goroutines cannot be torn down, so the worker reports the rest of
// its cases as inconclusive and exits (C12 is the check that judges leaks).
func leakHookInconc(c *mon.Case, sc *eng.Scen) func(r *eng.ScenResult) {
	return func(r *eng.ScenResult) {
		g := r.Leaked[0]
		c.Shard.Inconc(fmt.Sprintf("worker stopped at case %d: %d goroutine(s) of the connection leaked after Close (created by %s) - judged by C12, not by this check", c.Idx, len(r.Leaked), g.CreatedBy()))
		mon.FlushAndExit(c.Shard)
	}
}

func TestC01(t *testing.T) {
	mon.Main(t, mon.Check{
		ID:    "C01",
		Level: "exploration",
		Rule:  "PRNG-drawn GBN scenarios (window N stratified over {1,2,3,4,5,20,127,128,253,254} in quick, every N in 1..254 in thorough; >=3*(N+1) messages per active direction so the sequence space wraps >=3 times; per-packet drop<=50%, in-order dup<=50%, delay<=3x resend timeout on both directions for 5..120 virtual seconds; static/adaptive timeouts; keepalive off/on; chunking off/on) run on the real gbn code in virtual time; oracle: Recv sequence is a byte-exact prefix of the accepted Send sequence per direction. One scenario in eight also has one transport write (of either endpoint, PRNG-chosen position) fail once with an error instead of losing its packet: the connection may give up, what it delivered must still be a prefix. A case is non-trivial if at least one packet was dropped or duplicated and at least one message was delivered; distinct = distinct wire-trace hash.",
		Assumptions: []string{
			"transport preserves per-direction order (enforced by sim.Link)",
			"faults start after a clean GBN handshake",
			"schedules are sampled (Go scheduler + virtual clock), not enumerated",
		},
		NCases: func(tier string) int {
			if tier == "thorough" {
				return 60000
			}
			return 2400
		},
		MinEvals: 100,
		Run:      runC01,
	})
}

func runC01(c *mon.Case) {
	sc := eng.RandScen(c.Rng, c.Tier, c.Idx)
	if c.Idx%8 == 5 {
		// one write of the transport fails with an error instead of
		// losing its packet silently (the connection may give up; what it
		// delivered must still be a prefix)
		k := 1 + c.Rng.Intn(6*(int(sc.Conf.N)+1))
		if c.Rng.Intn(2) == 0 {
			sc.WriteErrC2S = k
		} else {
			sc.WriteErrS2C = k
		}
		c.Shard.Count("scenarios_with_a_transport_write_error", 1)
	}
	r := eng.RunScen(c.T, sc, eng.Hooks{OnLeak: leakHookInconc(c, sc)})
	if r.ConnErrC != nil || r.ConnErrS != nil {
		c.Shard.Violate("handshake-failed-clean-link",
			fmt.Sprintf("handshake over a clean link failed: client=%v server=%v", r.ConnErrC, r.ConnErrS),
			scenReplay(sc, r))
		return
	}
	sig, faults := eng.TraceSig(r.LogC2S, r.LogS2C)
	delivered := 0
	for _, f := range []*eng.FlowResult{r.A, r.B} {
		ok, what := eng.PrefixVerdict(f)
		_, d, _ := f.Snapshot()
		delivered += d
		if !ok {
			c.Shard.Violate("prefix", what+" ["+sc.Conf.String()+"]", scenReplay(sc, r))
		}
	}
	c.Shard.Count("messages_delivered", int64(delivered))
	c.Shard.Count("seqspace_wraps", int64(delivered/(int(sc.Conf.N)+1)))
	c.Shard.Count("fault_decisions", int64(faults))
	c.Shard.Count("wire_events", int64(len(r.LogC2S)+len(r.LogS2C)))
	if r.Completed {
		c.Shard.Count("completed", 1)
	}
	if r.DoneC >= 0 || r.DoneS >= 0 {
		c.Shard.Count("closed_by_itself", 1)
	}
	if faults > 0 && delivered > 0 {
		c.Shard.Eval(sig)
	} else {
		c.Shard.Eval("")
	}
	if c.Idx%400 == 0 {
		c.Shard.Sample(scenReplay(sc, r))
	}
}
