package checks

import (
	"context"
	"fmt"
	"sync"
	"sync/atomic"
	"testing"
	"testing/synctest"
	"time"

	"verifharness/eng"
	"verifharness/mon"
	"verifharness/sim"

	"github.com/lightninglabs/lightning-node-connect/gbn"
)

func TestC09(t *testing.T) {
	mon.Main(t, mon.Check{
		ID:    "C09",
		Level: "exploration",
		Rule:  "three case kinds. (W) random fault scenarios (as C01) with a wire-level window monitor per sender: a DATA/PING packet is fresh iff its seq equals freshCount mod (N+1); ACK/NACKs are applied to the monitor's window the moment the link hands them to the sender (the sender cannot know more), and at every fresh transmission freshCount-acked must be <= N; in the same callback the real queue is sampled through the hook (size<=N, base<S, top<S, S=N+1>N, both ends report the client's N). (B) blocking semantics on an idle clean link with latency L: N Sends issued at virtual instant t0 all return at t0, the (N+1)-th is still blocked after the bubble settles and returns exactly when the first ACK is delivered. (Q) the real queue's processACK/processNACK driven through the hook over every (base, top, seq) of every sequence space s in 2..24 (quick) / 2..64 (thorough) plus random triples up to s=255, against an independent modular-distance oracle. One scenario in eight has one transport write fail with an error. At the API boundary: messages accepted by Send minus packets covered by the ACK/NACKs delivered so far must never exceed N. Non-trivial: W = at least one ACK/NACK was lost, duplicated or delayed and the window filled at least once; distinct = trace hash / (N,L) / s.",
		Assumptions: []string{
			"transport preserves per-direction order",
			"the monitor applies an acknowledgement when it is delivered to the sender, so it can only under-estimate what is outstanding (sound, may miss)",
		},
		NCases: func(tier string) int {
			if tier == "thorough" {
				return 30000
			}
			return 1500
		},
		MinEvals: 100,
		Run:      runC09,
	})
}

func runC09(c *mon.Case) {
	switch {
	case c.Idx%10 == 8:
		runC09Blocking(c)
	case c.Idx%10 == 9:
		runC09Queue(c)
	default:
		runC09Window(c)
	}
}

// winMon is the wire-level window monitor of one sender.
type winMon struct {
	mu        sync.Mutex
	name      string
	n, s      int
	fresh     int // fresh DATA packets put on the wire so far
	acked     int // packets acknowledged by ACK/NACKs delivered so far
	accepted  int // messages whose Send returned nil
	maxOut    int
	fullCount int
	conn      func() *gbn.GoBackNConn
	viol      func(key, desc string)
	samples   int64
}

func (w *winMon) onSend(idx int, p sim.Pkt) {
	if p.Type != sim.TData || !p.Valid {
		return
	}
	w.mu.Lock()
	isFresh := int(p.Seq) == w.fresh%w.s
	if isFresh {
		w.fresh++
		out := w.fresh - w.acked
		if out > w.maxOut {
			w.maxOut = out
		}
		if out == w.n {
			w.fullCount++
		}
		if out > w.n {
			w.viol("window-exceeded", fmt.Sprintf("%s put fresh packet #%d (seq %d) on the wire with %d packets outstanding that no delivered ACK/NACK covers; N=%d",
				w.name, w.fresh-1, p.Seq, out, w.n))
		}
	} else {
		// a retransmission must lie inside the outstanding window as far
		// as the monitor can tell (acked may run ahead of the sender)
	}
	w.mu.Unlock()
	if g := w.conn(); g != nil {
		st := g.VerifState()
		atomic.AddInt64(&w.samples, 1)
		qs := g.VerifQueueS()
		if int(st.N) != w.n || int(st.S) != w.n+1 || int(qs) != w.n+1 || st.S <= st.N {
			w.viol("seqspace", fmt.Sprintf("%s: n=%d s=%d queue.s=%d but the client proposed N=%d (sequence space must be N+1 > N)", w.name, st.N, st.S, qs, w.n))
		}
		if st.Size > st.N || st.Base >= qs || st.Top >= qs {
			w.viol("bookkeeping", fmt.Sprintf("%s: queue state base=%d top=%d size=%d outside the valid range for N=%d S=%d", w.name, st.Base, st.Top, st.Size, st.N, qs))
		}
	}
}

// onAccepted: a Send of this sender returned nil, i.e. the send loop took the
// message because its window had room. Every accepted message is at least one
// queue entry, and an entry leaves the queue only through an ACK/NACK that was
// delivered before: messages accepted minus packets covered by delivered
// ACK/NACKs can never exceed N (the monitor's count of covered packets can only
// run ahead of the sender's).
func (w *winMon) onAccepted() {
	w.mu.Lock()
	w.accepted++
	out := w.accepted - w.acked
	w.mu.Unlock()
	if out > w.n {
		w.viol("send-accepted-beyond-window", fmt.Sprintf("%s: Send accepted message #%d although %d accepted messages are not covered by any ACK/NACK delivered so far; N=%d", w.name, w.accepted-1, out, w.n))
	}
}

func (w *winMon) onDeliver(idx int, p sim.Pkt) {
	if !p.Valid || (p.Type != sim.TAck && p.Type != sim.TNack) {
		return
	}
	w.mu.Lock()
	defer w.mu.Unlock()
	out := w.fresh - w.acked
	d := ((int(p.Seq)-w.acked%w.s)%w.s + w.s) % w.s
	switch p.Type {
	case sim.TAck:
		if d < out {
			w.acked += d + 1
		}
	case sim.TNack:
		if d <= out {
			w.acked += d
		}
	}
}

func runC09Window(c *mon.Case) {
	sc := eng.RandScen(c.Rng, c.Tier, c.Idx)
	if c.Idx%8 == 3 {
		// one transport write fails with an error (it puts nothing on the
		// wire): whatever the connection does about it, the window bound
		// holds for what does reach the wire
		k := 1 + c.Rng.Intn(4*(int(sc.Conf.N)+1))
		if c.Rng.Intn(2) == 0 {
			sc.WriteErrC2S = k
		} else {
			sc.WriteErrS2C = k
		}
		c.Shard.Count("scenarios_with_a_transport_write_error", 1)
	}
	var cm, sm *winMon
	var pair *eng.Pair
	var mu sync.Mutex
	var viols []mon.Violation
	mk := func(name string, conn func() *gbn.GoBackNConn) *winMon {
		return &winMon{name: name, n: int(sc.Conf.N), s: int(sc.Conf.N) + 1, conn: conn,
			viol: func(key, desc string) {
				mu.Lock()
				if len(viols) < 3 {
					viols = append(viols, mon.Violation{Key: key, Desc: desc})
				}
				mu.Unlock()
			}}
	}
	hooks := eng.Hooks{
		OnLeak: leakHookInconc(c, sc),
		OnAccepted: func(dir byte, i int) {
			if dir == 'a' {
				cm.onAccepted()
			} else {
				sm.onAccepted()
			}
		},
		BeforeConnect: func(p *eng.Pair) {
			pair = p
			cm = mk("client", p.Client)
			sm = mk("server", p.Server)
			p.C2S.OnSend = cm.onSend
			p.S2C.OnDeliver = cm.onDeliver
			p.S2C.OnSend = sm.onSend
			p.C2S.OnDeliver = sm.onDeliver
		},
	}
	r := eng.RunScen(c.T, sc, hooks)
	_ = pair
	if r.ConnErrC != nil || r.ConnErrS != nil {
		c.Shard.Inconc(fmt.Sprintf("handshake failed: %v / %v", r.ConnErrC, r.ConnErrS))
		return
	}
	for _, v := range viols {
		c.Shard.Violate(v.Key, v.Desc+" ["+sc.Conf.String()+"]", scenReplay(sc, r))
	}
	sig, _ := eng.TraceSig(r.LogC2S, r.LogS2C)
	ackFaults := 0
	for _, lg := range [][]sim.WireEvent{r.LogC2S, r.LogS2C} {
		for _, e := range lg {
			if (e.P.Type == sim.TAck || e.P.Type == sim.TNack) && (e.Kind == "drop" || e.Dup > 0) {
				ackFaults++
			}
		}
	}
	c.Shard.Count("fresh_packets", int64(cm.fresh+sm.fresh))
	c.Shard.Count("window_full_events", int64(cm.fullCount+sm.fullCount))
	c.Shard.Count("whitebox_samples", cm.samples+sm.samples)
	c.Shard.Count("ack_nack_faults", int64(ackFaults))
	if cm.maxOut > int(sc.Conf.N) || sm.maxOut > int(sc.Conf.N) {
		c.Shard.Count("max_outstanding_over_n", 1)
	}
	if ackFaults > 0 && cm.fullCount+sm.fullCount > 0 {
		c.Shard.Eval("W|" + sig)
	} else {
		c.Shard.Eval("")
	}
	if c.Idx%300 == 0 {
		m := scenReplay(sc, r)
		m["kind"] = "W"
		m["max_outstanding_client"] = cm.maxOut
		m["max_outstanding_server"] = sm.maxOut
		c.Shard.Sample(m)
	}
}

func runC09Blocking(c *mon.Case) {
	rng := c.Rng
	n := eng.PickN(c.Tier, c.Idx/10)
	lat := []time.Duration{time.Millisecond, 20 * time.Millisecond, 300 * time.Millisecond, 900 * time.Millisecond}[rng.Intn(4)]
	conf := eng.GBNConf{N: n, Lat: lat, Static: true, Resend: 10 * time.Second, HSTimeout: 5 * time.Second}
	fromServer := rng.Intn(2) == 0
	rep := map[string]any{"kind": "B", "conf": conf.String(), "sender": map[bool]string{true: "server", false: "client"}[fromServer]}
	synctest.Test(c.T, func(t *testing.T) {
		ctx, cancel := context.WithCancel(context.Background())
		defer cancel()
		p := eng.NewPair(conf)
		var firstAckAt atomic.Int64
		firstAckAt.Store(-1)
		ackLink := p.S2C
		if fromServer {
			ackLink = p.C2S
		}
		ce, se := p.Connect(ctx)
		if ce != nil || se != nil {
			c.Shard.Inconc(fmt.Sprintf("handshake failed: %v / %v", ce, se))
			p.CloseAll()
			return
		}
		// Let the handshake's last packets drain so the connection is idle.
		time.Sleep(4*lat + time.Second)
		ackLink.OnDeliver = func(idx int, pk sim.Pkt) {
			if pk.Type == sim.TAck && firstAckAt.Load() < 0 {
				firstAckAt.Store(int64(time.Since(p.T0)))
			}
		}
		from, to := p.C, p.S
		if fromServer {
			from, to = p.S, p.C
		}
		go func() {
			for {
				if _, err := to.Recv(); err != nil {
					return
				}
			}
		}()
		t0 := time.Now()
		for i := 0; i < int(n); i++ {
			if err := from.Send(eng.MsgBytes('a', i, 8)); err != nil {
				c.Shard.Violate("send-error-idle", fmt.Sprintf("Send #%d on an idle connection failed: %v", i, err), rep)
				break
			}
			if el := time.Since(t0); el != 0 {
				c.Shard.Violate("send-waited-within-window",
					fmt.Sprintf("Send #%d of the first N=%d on an idle connection returned only after %v of virtual time (it must not wait for the peer)", i+1, n, el), rep)
				break
			}
		}
		var returned atomic.Bool
		var retAt atomic.Int64
		go func() {
			_ = from.Send(eng.MsgBytes('a', int(n), 8))
			retAt.Store(int64(time.Since(p.T0)))
			returned.Store(true)
		}()
		synctest.Wait()
		if returned.Load() && firstAckAt.Load() < 0 {
			c.Shard.Violate("send-not-blocked-on-full-window",
				fmt.Sprintf("Send #%d (N+1) returned at once although no ACK had been delivered yet (N=%d, latency %v)", n+1, n, lat), rep)
		}
		// wait for it
		time.Sleep(2*lat + 5*time.Second)
		synctest.Wait()
		if !returned.Load() {
			c.Shard.Violate("send-still-blocked-after-ack",
				fmt.Sprintf("Send #%d (N+1) still blocked 5s after the first ACK was delivered at %v", n+1, time.Duration(firstAckAt.Load())), rep)
		} else if fa := firstAckAt.Load(); fa >= 0 && retAt.Load() < fa {
			c.Shard.Violate("send-returned-before-ack",
				fmt.Sprintf("Send #%d (N+1) returned at %v, before the first ACK was delivered at %v", n+1, time.Duration(retAt.Load()), time.Duration(fa)), rep)
		} else if fa >= 0 && time.Duration(fa) < t0.Sub(p.T0)+2*lat {
			c.Shard.Violate("ack-too-early", fmt.Sprintf("harness: first ACK at %v earlier than one round trip", time.Duration(fa)), rep)
		}
		c.Shard.Count("blocking_probes", 1)
		p.CloseAll()
		cancel()
		if lk := eng.Settle(); len(lk) > 0 {
			c.Shard.Inconc("leak after blocking probe (judged by C12)")
			mon.FlushAndExit(c.Shard)
		}
	})
	c.Shard.Eval(fmt.Sprintf("B|N=%d|L=%v|srv=%v", n, lat, fromServer))
	if c.Idx%200 == 8 {
		c.Shard.Sample(rep)
	}
}

// runC09Queue drives the real queue's ACK/NACK arithmetic over whole small
// sequence spaces and random large ones.
func runC09Queue(c *mon.Case) {
	rng := c.Rng
	k := c.Idx / 10 // which slice of the space
	maxS := 24
	if c.Tier == "thorough" {
		maxS = 64
	}
	var spaces []int
	if k < maxS-1 {
		spaces = []int{k + 2}
	}
	check := func(s, base, top, seq int, nack bool) {
		q := gbn.VerifNewQueue(uint8(s))
		q.Set(uint8(base), uint8(top))
		size := ((top-base)%s + s) % s
		d := ((seq-base)%s + s) % s
		var nb, ntop, nsize uint8
		var desc string
		if !nack {
			ok := q.ACK(uint8(seq))
			nb, ntop, nsize = q.State()
			wantBase, wantOK := base, false
			if d < size {
				wantBase, wantOK = (base+d+1)%s, true
			}
			if int(nb) != wantBase || ok != wantOK {
				desc = fmt.Sprintf("ACK(%d) on base=%d top=%d s=%d: got base=%d valid=%v, want base=%d valid=%v", seq, base, top, s, nb, ok, wantBase, wantOK)
			}
		} else {
			resend, bumped := q.NACK(uint8(seq))
			nb, ntop, nsize = q.State()
			wantBase, wantResend, wantBumped := base, false, false
			switch {
			case d == size:
				wantBase, wantBumped = top, true
			case d < size:
				wantBase, wantResend, wantBumped = (base+d)%s, true, d > 0
			}
			if int(nb) != wantBase || resend != wantResend || bumped != wantBumped {
				desc = fmt.Sprintf("NACK(%d) on base=%d top=%d s=%d: got base=%d resend=%v bumped=%v, want base=%d resend=%v bumped=%v", seq, base, top, s, nb, resend, bumped, wantBase, wantResend, wantBumped)
			}
		}
		q.Stop()
		nsz := ((int(ntop)-int(nb))%s + s) % s
		switch {
		case desc != "":
		case int(nb) >= s || int(ntop) >= s:
			desc = fmt.Sprintf("base=%d top=%d left the sequence space s=%d", nb, ntop, s)
		case int(ntop) != top:
			desc = fmt.Sprintf("top moved from %d to %d on an acknowledgement", top, ntop)
		case nsz > size || int(nsize) != nsz:
			desc = fmt.Sprintf("size grew or is inconsistent: before %d after %d (reported %d)", size, nsz, nsize)
		}
		if desc != "" {
			kind := "ack"
			if nack {
				kind = "nack"
			}
			c.Shard.Violate("queue-arith|"+kind, desc, map[string]any{"s": s, "base": base, "top": top, "seq": seq, "nack": nack})
		}
	}
	var triples int64
	for _, s := range spaces {
		for base := 0; base < s; base++ {
			for top := 0; top < s; top++ {
				for seq := 0; seq < s; seq++ {
					check(s, base, top, seq, false)
					check(s, base, top, seq, true)
					triples += 2
				}
			}
		}
		c.Shard.Sig(fmt.Sprintf("Q|s=%d|exhaustive", s))
		c.Shard.Count("queue_spaces_exhausted", 1)
	}
	for i := 0; i < 4000; i++ {
		s := 2 + rng.Intn(254)
		check(s, rng.Intn(s), rng.Intn(s), rng.Intn(s), rng.Intn(2) == 0)
		triples++
	}
	c.Shard.Count("queue_triples", triples)
	c.Shard.Eval(fmt.Sprintf("Q|rand|%d", k))
	if k == 0 {
		c.Shard.Sample(map[string]any{"kind": "Q", "spaces": spaces, "triples": triples})
	}
}
