package checks

import (
	"bytes"
	"context"
	"fmt"
	"math/rand"
	"net"
	"sync"
	"testing"
	"time"

	"verifharness/eng"
	"verifharness/mon"
	"verifharness/sim"

	"github.com/lightninglabs/lightning-node-connect/mailbox"
)

func TestC02(t *testing.T) {
	mon.Main(t, mon.Check{
		ID:          "C02",
		Level:       "exploration",
		Rule:        "two real noise Machines after a real XX or KK handshake; the writer's records are captured (18-byte header record + body record), an adversary edits the byte stream, and the reader calls ReadMessage until the stream is exhausted, continuing after errors. Case kinds: (F) every single-bit flip of every byte of a 3-record stream (sizes drawn from {0,1,2,15,16,17,1000}), exhaustive per stream; (R) PRNG scripts of 1-5 edits from {flip, truncate at any offset, drop record / header / body, duplicate, swap adjacent, replay earlier record, reflect a record of the opposite direction (same index or another), inject random bytes, splice header of one record onto the body of another} over 3-12 records of sizes {0,1,2,15,16,17,1000,65535}; (X) targeted: replay of record i in place of record 500+i (across the key rotation), reflection of the reader's own k-th record at position k (k < 6, and k >= 500 after both directions have rotated their keys), a record of an unrelated session at the same index, and header/body type confusion with 2-byte records whose plaintext is a valid length. Oracle: the list of plaintexts returned without error is a prefix of the list the authentic peer wrote in that direction (byte-exact), whatever happens after the first error. Non-trivial = the edit changed the byte stream; distinct = (kind, pattern, direction, script). (N) the same adversary at the connection level: a NoiseGrpcConn pair (over a ProxyConn) or a NoiseConn pair after a real handshake, 3-7 Writes of sizes {0,1,15,16,17,1000,32767,32768,40000,65535}, one edit (flip, drop, dup, truncate, inject, swap, replay, reflect a record of the opposite direction) of one transport write (header or body), the reader calling Read with buffers from 1 byte to 100000 bytes and continuing after errors: the bytes returned must stay a prefix of the bytes written.",
		Assumptions: []string{"computational security of ChaCha20-Poly1305 is not judged; only what the reader returns is"},
		NCases: func(tier string) int {
			if tier == "thorough" {
				return 6000 + 1500
			}
			return 360 + 60
		},
		MinEvals: 100,
		Run:      runC02,
	})
}

var c02Sizes = []int{0, 1, 2, 15, 16, 17, 1000, 65535}

func c02Plain(rng *rand.Rand, dir byte, i, size int) []byte {
	b := eng.MsgBytes(dir, i, size)
	return b
}

// readAll feeds the stream to the reader machine and returns every plaintext
// that was returned without error, plus the number of errors seen.
func readAll(m *mailbox.Machine, stream []byte, maxReads int) (plains [][]byte, errs int) {
	r := bytes.NewReader(stream)
	for i := 0; i < maxReads; i++ {
		if r.Len() == 0 {
			break
		}
		p, err := m.ReadMessage(r)
		if err != nil {
			errs++
			continue
		}
		plains = append(plains, p)
	}
	return
}

func prefixOf(got [][]byte, want []eng.Record) (bool, string) {
	for i, g := range got {
		if i >= len(want) {
			return false, fmt.Sprintf("read #%d returned %d bytes but only %d records were ever written", i, len(g), len(want))
		}
		if !bytes.Equal(g, want[i].Plain) {
			return false, fmt.Sprintf("read #%d returned %d bytes %x.. which is not the %d-byte plaintext #%d the peer wrote (%x..)", i, len(g), trunc(g), len(want[i].Plain), i, trunc(want[i].Plain))
		}
	}
	return true, ""
}

type c02Trial struct {
	kk       bool
	toServer bool // direction client -> server
	sizes    []int
	tag      byte // plaintext family (0 = 'w')
}

// setup performs the handshake and writes the records of both directions.
func (tr c02Trial) setup(rng *rand.Rand, revCount int) (reader *mailbox.Machine, recs, rev []eng.Record, err error) {
	hs := eng.Session(rng, tr.kk, []byte("auth"))
	if !hs.OK() {
		return nil, nil, nil, fmt.Errorf("clean handshake failed: %v / %v", hs.C.Err, hs.S.Err)
	}
	w, r := hs.C.M, hs.S.M
	if !tr.toServer {
		w, r = hs.S.M, hs.C.M
	}
	tag := tr.tag
	if tag == 0 {
		tag = 'w'
	}
	plains := make([][]byte, len(tr.sizes))
	for i, s := range tr.sizes {
		plains[i] = c02Plain(rng, tag, i, s)
	}
	recs, err = eng.WriteRecords(w, plains)
	if err != nil {
		return nil, nil, nil, err
	}
	// records of the opposite direction, written by the reader's own machine
	rp := make([][]byte, revCount)
	for i := range rp {
		sz := 7
		if i < len(tr.sizes) {
			sz = tr.sizes[i]
		}
		rp[i] = c02Plain(rng, 'r', i, sz)
	}
	rev, err = eng.WriteRecords(r, rp)
	return r, recs, rev, err
}

// runC02Conn: the same adversary one layer up, where applications read: two
// real secured connections (NoiseGrpcConn over a ProxyConn, or NoiseConn) after
// a real handshake; the writer calls Write with PRNG sizes, the adversary edits
// the transport writes (a record is a header write and a body write), and the
// reader calls Read with PRNG buffer sizes from 1 byte to more than a record,
// continuing after the first error. Every byte returned must continue the
// prefix of what the peer wrote in that direction.
func runC02Conn(c *mon.Case) {
	rng := c.Rng
	variant := []string{"G", "T"}[rng.Intn(2)]
	pass := eng.Entropy(rng)
	da, db, a2b, b2a := sim.NewDuplexPair()
	var wconn, rconn net.Conn
	var ce, se error
	var wg sync.WaitGroup
	wg.Add(2)
	switch variant {
	case "G":
		cp := eng.NewMboxParty(eng.NewKey(rng), nil, pass, nil, 0, 2)
		sp := eng.NewMboxParty(eng.NewKey(rng), nil, pass, []byte("auth"), 0, 2)
		go func() {
			defer wg.Done()
			wconn, _, ce = cp.Noise.ClientHandshake(context.Background(), "", &fakeProxy{da})
		}()
		go func() { defer wg.Done(); rconn, _, se = sp.Noise.ServerHandshake(&fakeProxy{db}) }()
	default:
		keyC, keyS := eng.NewKey(rng), eng.NewKey(rng)
		go func() {
			defer wg.Done()
			var cc *mailbox.NoiseConn
			cc, ce = mailbox.Dial(keyC, &net.TCPAddr{IP: net.IPv4(127, 0, 0, 1), Port: 1}, pass, time.Second,
				func(network, addr string, timeout time.Duration) (net.Conn, error) { return &pipeConn{da}, nil })
			if ce == nil {
				wconn = cc
			}
		}()
		go func() {
			defer wg.Done()
			cd := mailbox.NewConnData(keyS, nil, pass, []byte("auth"), nil, nil)
			var sm *mailbox.Machine
			sm, se = mailbox.NewBrontideMachine(&mailbox.BrontideMachineConfig{
				Initiator: false, HandshakePattern: cd.HandshakePattern(), ConnData: cd,
				MinHandshakeVersion: mailbox.MinHandshakeVersion, MaxHandshakeVersion: mailbox.MaxHandshakeVersion,
			})
			if se == nil {
				se = sm.DoHandshake(db)
			}
			if se != nil {
				db.In.Close()
				db.Out.Close()
				return
			}
			rconn = mailbox.VerifNewNoiseConn(&pipeConn{db}, sm)
		}()
	}
	wg.Wait()
	if ce != nil || se != nil {
		c.Shard.Inconc(fmt.Sprintf("conn slice: handshake failed: %v / %v", ce, se))
		return
	}
	// client -> server carries the stream under attack; a few records of
	// the opposite direction give the adversary something to reflect
	for i := 0; i < 2; i++ {
		if _, err := rconn.Write(c02Plain(rng, 'r', i, 40)); err != nil {
			c.Shard.Inconc("conn slice: reverse write failed: " + err.Error())
			return
		}
	}
	reverse := append([][]byte{}, b2a.Written[len(b2a.Written)-4:]...)
	sizes := []int{0, 1, 15, 16, 17, 1000, 32767, 32768, 40000, 65535}
	nw := 3 + rng.Intn(5)
	var stream []byte
	var ws []int
	for i := 0; i < nw; i++ {
		sz := sizes[rng.Intn(len(sizes))]
		if sz > 1000 && rng.Intn(2) == 0 {
			sz = 1 + rng.Intn(300)
		}
		ws = append(ws, sz)
	}
	base := len(a2b.Written)
	target := rng.Intn(2 * nw)
	action := []string{"flip", "drop", "dup", "truncate", "inject-before", "swap-with-next", "replay-earlier", "reflect", "none"}[rng.Intn(9)]
	var held []byte
	var earlier [][]byte
	a2b.Hook = func(idx int, p []byte) [][]byte {
		rel := idx - base
		defer func() { earlier = append(earlier, append([]byte{}, p...)) }()
		if held != nil {
			h := held
			held = nil
			return [][]byte{p, h}
		}
		if rel != target || len(p) == 0 {
			return [][]byte{p}
		}
		switch action {
		case "flip":
			q := append([]byte{}, p...)
			bit := rng.Intn(len(q) * 8)
			q[bit/8] ^= 1 << (bit % 8)
			return [][]byte{q}
		case "drop":
			return nil
		case "dup":
			return [][]byte{p, p}
		case "truncate":
			return [][]byte{p[:rng.Intn(len(p))]}
		case "inject-before":
			j := make([]byte, 1+rng.Intn(40))
			rng.Read(j)
			return [][]byte{j, p}
		case "swap-with-next":
			held = append([]byte{}, p...)
			return nil
		case "replay-earlier":
			if len(earlier) > 0 {
				return [][]byte{earlier[rng.Intn(len(earlier))], p}
			}
		case "reflect":
			return [][]byte{reverse[rng.Intn(len(reverse))], p}
		}
		return [][]byte{p}
	}
	for i, sz := range ws {
		data := eng.StreamBytes('c', len(stream), sz)
		n, err := wconn.Write(data)
		if err != nil || n != sz {
			c.Shard.Inconc(fmt.Sprintf("conn slice: Write #%d of %d bytes returned (%d, %v)", i, sz, n, err))
			return
		}
		stream = append(stream, data...)
	}
	if held != nil {
		a2b.Inject(held)
	}
	a2b.Close()
	bufs := []int{1, 2, 3, 17, 4096, 32767, 32768, 32769, 65535, 100000}
	var got []byte
	errs, reads := 0, 0
	rep := map[string]any{"kind": "conn", "variant": variant, "writes": ws, "edit": fmt.Sprintf("%s at transport write %d", action, target)}
	for errs < 4 && reads < 400000 {
		buf := make([]byte, bufs[rng.Intn(len(bufs))])
		n, err := rconn.Read(buf)
		reads++
		if n < 0 || n > len(buf) {
			c.Shard.Violate("conn|read-count", fmt.Sprintf("%s: Read into %d bytes returned n=%d", variant, len(buf), n), rep)
			return
		}
		got = append(got, buf[:n]...)
		if len(got) > len(stream) || !bytes.Equal(got, stream[:len(got)]) {
			c.Shard.Violate("conn|"+action, fmt.Sprintf("%s connection, %s at transport write %d of %d records %v: after %d reads the reader holds %d bytes that are not a prefix of the %d bytes the peer wrote (first difference at offset %d)", variant, action, target, nw, ws, reads, len(got), len(stream), firstDiff(got, stream)), rep)
			return
		}
		if err != nil {
			errs++
		}
	}
	c.Shard.Count("conn_level_streams", 1)
	c.Shard.Eval(fmt.Sprintf("conn|%s|%s|%d|%v", variant, action, target, ws))
	if c.Idx%30 == 0 {
		c.Shard.Sample(rep)
	}
}

func runC02(c *mon.Case) {
	if (c.Tier == "thorough" && c.Idx >= 6000) || (c.Tier != "thorough" && c.Idx >= 360) {
		runC02Conn(c)
		return
	}
	switch c.Idx % 3 {
	case 0:
		runC02Flips(c)
	case 1:
		runC02Random(c)
	default:
		runC02Targeted(c)
	}
}

func runC02Flips(c *mon.Case) {
	rng := c.Rng
	// The record layer is the same after XX and KK; XX costs a forced GC per
	// handshake (stretchPassphrase), so most exhaustive streams use KK.
	tr := c02Trial{kk: rng.Intn(6) != 0, toServer: rng.Intn(2) == 0}
	small := []int{0, 1, 2, 15, 16, 17}
	tr.sizes = []int{small[rng.Intn(len(small))], small[rng.Intn(len(small))], small[rng.Intn(len(small))]}
	if c.Tier == "thorough" && rng.Intn(4) == 0 {
		tr.sizes[rng.Intn(3)] = 1000
	}
	total := 0
	for _, s := range tr.sizes {
		total += 18 + s + 16
	}
	seed := rng.Int63()
	flips := 0
	for bit := 0; bit < total*8; bit++ {
		r2 := rand.New(rand.NewSource(seed)) // same keys and plaintexts for every flip
		reader, recs, _, err := tr.setup(r2, 0)
		if err != nil {
			c.Shard.Inconc(err.Error())
			return
		}
		var stream []byte
		for _, r := range recs {
			stream = append(stream, r.Bytes()...)
		}
		stream[bit/8] ^= 1 << (bit % 8)
		got, errs := readAll(reader, stream, 12)
		flips++
		if ok, what := prefixOf(got, recs); !ok {
			c.Shard.Violate("flip", fmt.Sprintf("bit %d of byte %d flipped (sizes %v, kk=%v, toServer=%v): %s", bit%8, bit/8, tr.sizes, tr.kk, tr.toServer, what),
				map[string]any{"sizes": tr.sizes, "kk": tr.kk, "to_server": tr.toServer, "bit": bit})
			break
		}
		if errs == 0 || len(got) == len(recs) {
			c.Shard.Violate("flip-undetected", fmt.Sprintf("bit %d of byte %d flipped (sizes %v) but the reader reported %d errors and returned %d of %d records", bit%8, bit/8, tr.sizes, errs, len(got), len(recs)),
				map[string]any{"sizes": tr.sizes, "kk": tr.kk, "to_server": tr.toServer, "bit": bit})
			break
		}
	}
	c.Shard.Count("bit_flips", int64(flips))
	c.Shard.Eval(fmt.Sprintf("F|kk=%v|srv=%v|%v", tr.kk, tr.toServer, tr.sizes))
	if c.Idx%150 == 0 {
		c.Shard.Sample(map[string]any{"kind": "F", "sizes": tr.sizes, "kk": tr.kk, "to_server": tr.toServer, "flips": flips})
	}
}

func runC02Random(c *mon.Case) {
	rng := c.Rng
	for trial := 0; trial < 12; trial++ {
		tr := c02Trial{kk: rng.Intn(2) == 0, toServer: rng.Intn(2) == 0}
		n := 3 + rng.Intn(10)
		for i := 0; i < n; i++ {
			s := c02Sizes[rng.Intn(len(c02Sizes))]
			if s == 65535 && rng.Intn(4) != 0 {
				s = 16
			}
			tr.sizes = append(tr.sizes, s)
		}
		reader, recs, rev, err := tr.setup(rng, n)
		if err != nil {
			c.Shard.Inconc(err.Error())
			return
		}
		// the stream as a list of chunks (header and body separately)
		type chunk struct {
			b    []byte
			desc string
		}
		var chunks []chunk
		for i, r := range recs {
			chunks = append(chunks, chunk{r.Header, fmt.Sprintf("H%d", i)}, chunk{r.Body, fmt.Sprintf("B%d", i)})
		}
		var script []string
		nEd := 1 + rng.Intn(5)
		for e := 0; e < nEd && len(chunks) > 0; e++ {
			k := rng.Intn(len(chunks)) &^ 1 // record-aligned index
			if k+1 >= len(chunks) {
				k = 0
			}
			if len(chunks) < 2 {
				break
			}
			switch rng.Intn(11) {
			case 0: // flip
				j := rng.Intn(len(chunks))
				if len(chunks[j].b) > 0 {
					b := append([]byte{}, chunks[j].b...)
					b[rng.Intn(len(b))] ^= byte(1 << rng.Intn(8))
					chunks[j] = chunk{b, chunks[j].desc + "^"}
					script = append(script, "flip "+chunks[j].desc)
				}
			case 1: // truncate the whole stream at some chunk offset
				j := rng.Intn(len(chunks))
				b := chunks[j].b
				if len(b) > 0 {
					chunks[j] = chunk{b[:rng.Intn(len(b))], chunks[j].desc + "|"}
				}
				chunks = chunks[:j+1]
				script = append(script, fmt.Sprintf("truncate in %s", chunks[j].desc))
			case 2: // drop record
				script = append(script, "drop "+chunks[k].desc+chunks[k+1].desc)
				chunks = append(chunks[:k:k], chunks[k+2:]...)
			case 3: // drop header only / body only
				j := k + rng.Intn(2)
				script = append(script, "drop "+chunks[j].desc)
				chunks = append(chunks[:j:j], chunks[j+1:]...)
			case 4: // duplicate record
				script = append(script, "dup "+chunks[k].desc)
				ins := []chunk{chunks[k], chunks[k+1]}
				chunks = append(chunks[:k+2:k+2], append(ins, chunks[k+2:]...)...)
			case 5: // swap adjacent records
				if k+3 < len(chunks) {
					script = append(script, "swap "+chunks[k].desc+" "+chunks[k+2].desc)
					chunks[k], chunks[k+1], chunks[k+2], chunks[k+3] = chunks[k+2], chunks[k+3], chunks[k], chunks[k+1]
				}
			case 6: // replay an earlier record later
				if k+2 < len(chunks) {
					j := (k + 2 + rng.Intn(len(chunks)-k-2)) &^ 1
					script = append(script, fmt.Sprintf("replay %s at %d", chunks[k].desc, j/2))
					ins := []chunk{chunks[k], chunks[k+1]}
					chunks = append(chunks[:j:j], append(ins, chunks[j:]...)...)
				}
			case 7: // reflect a record of the opposite direction at the same index
				i := k / 2
				if i < len(rev) {
					script = append(script, fmt.Sprintf("reflect own #%d at %d", i, i))
					ins := []chunk{{rev[i].Header, fmt.Sprintf("rH%d", i)}, {rev[i].Body, fmt.Sprintf("rB%d", i)}}
					chunks = append(chunks[:k:k], append(ins, chunks[k:]...)...)
				}
			case 8: // reflect another index
				i := rng.Intn(len(rev))
				script = append(script, fmt.Sprintf("reflect own #%d at %d", i, k/2))
				ins := []chunk{{rev[i].Header, "rH"}, {rev[i].Body, "rB"}}
				chunks = append(chunks[:k:k], append(ins, chunks[k:]...)...)
			case 9: // inject random bytes
				b := make([]byte, 1+rng.Intn(60))
				rng.Read(b)
				script = append(script, fmt.Sprintf("inject %d random bytes at %d", len(b), k/2))
				chunks = append(chunks[:k:k], append([]chunk{{b, "rnd"}}, chunks[k:]...)...)
			case 10: // splice: header of one record with the body of another
				if k+3 < len(chunks) {
					script = append(script, "splice "+chunks[k].desc+"+"+chunks[k+3].desc)
					chunks[k+1] = chunks[k+3]
				}
			}
		}
		var stream, orig []byte
		for _, ch := range chunks {
			stream = append(stream, ch.b...)
		}
		for _, r := range recs {
			orig = append(orig, r.Bytes()...)
		}
		got, errs := readAll(reader, stream, 3*n+10)
		changed := !bytes.Equal(stream, orig)
		if ok, what := prefixOf(got, recs); !ok {
			c.Shard.Violate("script", fmt.Sprintf("edit script %v over sizes %v (kk=%v toServer=%v): %s", script, tr.sizes, tr.kk, tr.toServer, what),
				map[string]any{"script": script, "sizes": tr.sizes, "kk": tr.kk, "to_server": tr.toServer})
		}
		if !changed && (errs != 0 || len(got) != len(recs)) {
			c.Shard.Violate("clean-stream-rejected", fmt.Sprintf("unmodified stream of sizes %v: %d errors, %d of %d records returned", tr.sizes, errs, len(got), len(recs)), nil)
		}
		c.Shard.Count("edit_scripts", 1)
		if changed {
			c.Shard.Sig(fmt.Sprintf("R|%v|%v|%v", tr.kk, tr.toServer, script))
		}
		if c.Idx%150 == 1 && trial == 0 {
			c.Shard.Sample(map[string]any{"kind": "R", "script": script, "sizes": tr.sizes, "returned": len(got), "errors": errs})
		}
	}
	c.Shard.Eval(fmt.Sprintf("R|%d", c.Idx))
}

func runC02Targeted(c *mon.Case) {
	rng := c.Rng
	tr := c02Trial{kk: rng.Intn(2) == 0, toServer: rng.Intn(2) == 0}
	variant := (c.Idx / 3) % 5
	desc := ""
	var reader *mailbox.Machine
	var recs []eng.Record
	var stream []byte
	switch variant {
	case 0: // replay across the key rotation: record 500+i replaced by record i
		n := 500 + 8
		for i := 0; i < n; i++ {
			tr.sizes = append(tr.sizes, []int{0, 1, 9}[i%3])
		}
		// give record i and record 500+i the same length so that only the key protects it
		i := rng.Intn(6)
		tr.sizes[500+i] = tr.sizes[i]
		r, rs, _, err := tr.setup(rng, 0)
		if err != nil {
			c.Shard.Inconc(err.Error())
			return
		}
		reader, recs = r, rs
		for j, rec := range recs {
			if j == 500+i {
				stream = append(stream, recs[i].Bytes()...)
			} else {
				stream = append(stream, rec.Bytes()...)
			}
		}
		desc = fmt.Sprintf("record %d replayed in place of record %d (after the key rotation)", i, 500+i)
	case 1: // reflection: the reader's own k-th record in place of the peer's k-th
		n := 6
		for i := 0; i < n; i++ {
			tr.sizes = append(tr.sizes, []int{1, 16, 33}[rng.Intn(3)])
		}
		r, rs, rev, err := tr.setup(rng, n)
		if err != nil {
			c.Shard.Inconc(err.Error())
			return
		}
		reader, recs = r, rs
		k := rng.Intn(n)
		for j, rec := range recs {
			if j == k {
				stream = append(stream, rev[k].Bytes()...)
			}
			stream = append(stream, rec.Bytes()...)
		}
		desc = fmt.Sprintf("the reader's own record #%d reflected back at position %d", k, k)
	case 4: // reflection after both directions have rotated their keys
		n := 500 + 6
		for i := 0; i < n; i++ {
			tr.sizes = append(tr.sizes, []int{0, 1, 9}[i%3])
		}
		r, rs, rev, err := tr.setup(rng, n)
		if err != nil {
			c.Shard.Inconc(err.Error())
			return
		}
		reader, recs = r, rs
		k := 500 + rng.Intn(6)
		for j, rec := range recs {
			if j == k {
				stream = append(stream, rev[k].Bytes()...)
			}
			stream = append(stream, rec.Bytes()...)
		}
		desc = fmt.Sprintf("the reader's own record #%d reflected back at position %d (both directions past their first key rotation)", k, k)
	case 3: // a record of a different session (same index, same direction)
		n := 5
		for i := 0; i < n; i++ {
			tr.sizes = append(tr.sizes, []int{1, 16, 33}[rng.Intn(3)])
		}
		r, rs, _, err := tr.setup(rng, 0)
		if err != nil {
			c.Shard.Inconc(err.Error())
			return
		}
		tr2 := tr
		tr2.tag = 'x' // different plaintexts, independent keys and passphrase
		_, other, _, err := tr2.setup(rng, 0)
		if err != nil {
			c.Shard.Inconc(err.Error())
			return
		}
		reader, recs = r, rs
		k := rng.Intn(n)
		for j, rec := range recs {
			if j == k {
				stream = append(stream, other[k].Bytes()...)
			}
			stream = append(stream, rec.Bytes()...)
		}
		desc = fmt.Sprintf("record #%d of an unrelated session injected at position %d", k, k)
	case 2: // header/body confusion after an error
		k := 1 + rng.Intn(3)
		next := 1 + rng.Intn(200)
		for i := 0; i <= k+2; i++ {
			tr.sizes = append(tr.sizes, 2)
		}
		tr.sizes[k+1] = next
		hs := eng.Session(rng, tr.kk, []byte("auth"))
		if !hs.OK() {
			c.Shard.Inconc("handshake failed")
			return
		}
		w, r := hs.C.M, hs.S.M
		if !tr.toServer {
			w, r = hs.S.M, hs.C.M
		}
		plains := make([][]byte, len(tr.sizes))
		for i, s := range tr.sizes {
			plains[i] = c02Plain(rng, 'w', i, s)
		}
		plains[k] = []byte{0, 2} // a plaintext that is itself a valid length prefix
		rs, err := eng.WriteRecords(w, plains)
		if err != nil {
			c.Shard.Inconc(err.Error())
			return
		}
		reader, recs = r, rs
		for j, rec := range recs {
			b := rec.Bytes()
			if j == k {
				b[rng.Intn(18)] ^= 0x40 // corrupt the header of record k
			}
			stream = append(stream, b...)
		}
		desc = fmt.Sprintf("header of 2-byte record #%d (plaintext 0002) corrupted, next record has %d bytes; the reader keeps reading after the error", k, next)
	}
	got, errs := readAll(reader, stream, len(recs)+20)
	if ok, what := prefixOf(got, recs); !ok {
		c.Shard.Violate(fmt.Sprintf("targeted|%d", variant), fmt.Sprintf("%s (kk=%v toServer=%v): %s", desc, tr.kk, tr.toServer, what),
			map[string]any{"variant": variant, "desc": desc, "kk": tr.kk, "to_server": tr.toServer})
	}
	if errs == 0 {
		c.Shard.Violate(fmt.Sprintf("targeted-undetected|%d", variant), fmt.Sprintf("%s: no read error was reported", desc), nil)
	}
	c.Shard.Eval(fmt.Sprintf("X|%d|kk=%v|srv=%v|%s", variant, tr.kk, tr.toServer, desc))
	if c.Idx%150 == 2 {
		c.Shard.Sample(map[string]any{"kind": "X", "desc": desc, "returned": len(got), "errors": errs})
	}
}
