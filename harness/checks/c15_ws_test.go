package checks

import (
	"bytes"
	"context"
	"encoding/base64"
	"encoding/hex"
	"encoding/json"
	"fmt"
	"math/rand"
	"net"
	"sync"
	"time"

	"verifharness/eng"
	"verifharness/mon"
	"verifharness/sim"

	"github.com/btcsuite/btclog/v2"
	"github.com/coder/websocket"
	"github.com/lightninglabs/lightning-node-connect/hashmailrpc"
	"github.com/lightninglabs/lightning-node-connect/mailbox"
)

// The local TLS websocket endpoint of c07_ws_test.go doubles as a functional
// front end of the in-memory relay: a session registers its relay under its two
// stream ids, and sockets that name one of them are bridged to that relay the
// way the mailbox proxy bridges its REST/websocket API to the hashmail server.
var wsRelays sync.Map // stream id (hex) -> *sim.Relay

type wsBox struct {
	Desc struct {
		StreamID  []byte `json:"stream_id"`
		StreamID2 []byte `json:"streamId"`
	} `json:"desc"`
	StreamID  []byte `json:"stream_id"`
	StreamID2 []byte `json:"streamId"`
	Msg       []byte `json:"msg"`
}

func (b *wsBox) id() []byte {
	for _, x := range [][]byte{b.Desc.StreamID, b.Desc.StreamID2, b.StreamID, b.StreamID2} {
		if len(x) > 0 {
			return x
		}
	}
	return nil
}

func wsRelayFor(frame []byte) (*sim.Relay, []byte) {
	var b wsBox
	if json.Unmarshal(frame, &b) != nil || b.id() == nil {
		return nil, nil
	}
	if v, ok := wsRelays.Load(hex.EncodeToString(b.id())); ok {
		return v.(*sim.Relay), b.id()
	}
	return nil, nil
}

func wsBridgeReceive(ctx context.Context, c *websocket.Conn, rl *sim.Relay, id []byte) {
	ctx, cancel := context.WithCancel(ctx)
	defer cancel()
	// the client never writes on this socket again: its close ends the stream
	ctx = c.CloseRead(ctx)
	st, err := rl.RecvStream(ctx, &hashmailrpc.CipherBoxDesc{StreamId: id})
	fail := func(err error) {
		wctx, wcancel := context.WithTimeout(context.Background(), 2*time.Second)
		_ = c.Write(wctx, websocket.MessageText, []byte(fmt.Sprintf(`{"error":{"code":2,"message":%q}}`, err.Error())))
		wcancel()
	}
	if err != nil {
		fail(err)
		return
	}
	for {
		cb, err := st.Recv()
		if err != nil {
			if ctx.Err() == nil {
				fail(err)
			}
			return
		}
		frame := fmt.Sprintf(`{"result":{"desc":{"stream_id":"%s"},"msg":"%s"}}`,
			base64.StdEncoding.EncodeToString(id), base64.StdEncoding.EncodeToString(cb.Msg))
		wctx, wcancel := context.WithTimeout(ctx, 20*time.Second)
		err = c.Write(wctx, websocket.MessageText, []byte(frame))
		wcancel()
		if err != nil {
			return
		}
	}
}

func wsBridgeSend(ctx context.Context, c *websocket.Conn, rl *sim.Relay, first []byte) {
	ctx, cancel := context.WithCancel(ctx)
	defer cancel()
	st, err := rl.SendStream(ctx)
	if err != nil {
		return
	}
	defer func() { _, _ = st.CloseAndRecv() }()
	msg := first
	for {
		var b wsBox
		if json.Unmarshal(msg, &b) != nil || b.id() == nil {
			return
		}
		if err := st.Send(&hashmailrpc.CipherBox{Desc: &hashmailrpc.CipherBoxDesc{StreamId: b.id()}, Msg: b.Msg}); err != nil {
			return
		}
		_, msg, err = c.Read(ctx)
		if err != nil {
			return
		}
	}
}

// runC15Websocket: the plain mailbox connection with the client on the
// websocket transport (real websocketTransport against the local TLS endpoint,
// bridged to the in-memory relay; the server on the gRPC-style client): a
// transfer in both directions with writes up to 65535 bytes (what a secured connection above it ever writes at once), then both ends
// close and refresh their connection objects (as Client.Dial / Server.Accept do
// for every reconnect) and the transfer is repeated on the refreshed pair. Real
// clock: a transfer that fails with a transport error is repeated with the same
// inputs and only reported if it fails three times in a row; wrong bytes are
// reported at once.
func runC15Websocket(c *mon.Case) {
	s, err := startWS()
	if err != nil {
		c.Shard.Inconc("websocket endpoint could not be started: " + err.Error())
		return
	}
	var last string
	for attempt := 0; attempt < 3; attempt++ {
		res, fatal := c15WebsocketOnce(c, s, attempt)
		if res == "" {
			if attempt > 0 {
				c.Shard.Inconc(fmt.Sprintf("case %d: the websocket session failed %d time(s) with a transport error and then transferred everything correctly with the same inputs (load)", c.Idx, attempt))
			}
			c.Shard.Count("transfers_W", 1)
			c.Shard.Eval(fmt.Sprintf("W|%d", c.Idx))
			return
		}
		if fatal {
			c.Shard.Violate("contract|W", res, map[string]any{"variant": "W"})
			return
		}
		last = res
	}
	c.Shard.Violate("contract|W|transfer-fails", "three attempts in a row: "+last, map[string]any{"variant": "W"})
}

func c15WebsocketOnce(c *mon.Case, s *wsServer, attempt int) (problem string, wrongBytes bool) {
	rng := rand.New(rand.NewSource(c.Seed))
	relay := sim.NewRelay()
	relay.KeepLog, relay.KeepMsg = false, false
	var sid [64]byte
	rng.Read(sid[:])
	sid[0] ^= byte(attempt) // a fresh pair of mailboxes per attempt
	for _, srvToCli := range []bool{false, true} {
		id := mailbox.GetSID(sid, srvToCli)
		wsRelays.Store(hex.EncodeToString(id[:]), relay)
		defer wsRelays.Delete(hex.EncodeToString(id[:]))
	}
	ctx, cancel := context.WithCancel(context.Background())
	defer cancel()
	var wg sync.WaitGroup
	var cc *mailbox.ClientConn
	var sc *mailbox.ServerConn
	var ce, se error
	wg.Add(2)
	go func() {
		defer wg.Done()
		sc, se = mailbox.NewServerConn(ctx, "relay", relay, sid, btclog.Disabled, func(mailbox.ServerStatus) {})
	}()
	go func() {
		defer wg.Done()
		cc, ce = mailbox.NewClientConn(ctx, sid, s.addr, nil, btclog.Disabled, func(mailbox.ClientStatus) {})
	}()
	wg.Wait()
	if ce != nil || se != nil {
		if cc != nil {
			_ = cc.Close()
		}
		if sc != nil {
			_ = sc.Stop()
		}
		return fmt.Sprintf("websocket mailbox connection could not be set up: client %v, server %v", ce, se), false
	}
	defer func() { _ = sc.Stop() }()
	sizes := func() []int {
		n := 3 + rng.Intn(3)
		out := make([]int, n)
		for i := range out {
			out[i] = []int{1, 100, 5000, 24000, 30000, 40000, 65535}[rng.Intn(7)] // the websocket receive limit is 100 KiB per (base64) frame: a full 65535-byte record fits
		}
		return out
	}
	xfer := func(w, r net.Conn, dir byte, ws []int) (string, bool) {
		total := 0
		for _, x := range ws {
			total += x
		}
		werr := make(chan error, 1)
		go func() {
			off := 0
			for _, x := range ws {
				if _, err := w.Write(eng.StreamBytes(dir, off, x)); err != nil {
					werr <- err
					return
				}
				off += x
			}
			werr <- nil
		}()
		want := eng.StreamBytes(dir, 0, total)
		var got []byte
		_ = r.SetReadDeadline(time.Now().Add(60 * time.Second))
		for len(got) < total {
			buf := make([]byte, []int{1000, 4096, 32768, 70000, 200000}[rng.Intn(5)])
			n, err := r.Read(buf)
			got = append(got, buf[:n]...)
			if len(got) > total || !bytes.Equal(got, want[:len(got)]) {
				return fmt.Sprintf("direction %c, writes %v: the reader holds %d bytes that are not a prefix of the %d bytes written (first difference at offset %d)", dir, ws, len(got), total, firstDiff(got, want)), true
			}
			if err != nil {
				return fmt.Sprintf("direction %c, writes %v: Read failed after %d of %d bytes: %v", dir, ws, len(got), total, err), false
			}
		}
		_ = r.SetReadDeadline(time.Time{})
		if err := <-werr; err != nil {
			return fmt.Sprintf("direction %c: Write failed: %v", dir, err), false
		}
		return "", false
	}
	for round := 0; round < 2; round++ {
		if p, wrong := xfer(cc, sc, 'u', sizes()); p != "" {
			_ = cc.Close()
			return fmt.Sprintf("connection #%d (websocket client, %s): %s", round+1, []string{"first", "refreshed"}[round], p), wrong
		}
		if p, wrong := xfer(sc, cc, 'd', sizes()); p != "" {
			_ = cc.Close()
			return fmt.Sprintf("connection #%d (websocket client, %s): %s", round+1, []string{"first", "refreshed"}[round], p), wrong
		}
		_ = cc.Close()
		_ = sc.Close()
		if round == 1 {
			break
		}
		// reconnect on the same rendezvous: both ends refresh their objects
		var ncc *mailbox.ClientConn
		var nsc *mailbox.ServerConn
		var e1, e2 error
		wg.Add(2)
		go func() { defer wg.Done(); nsc, e2 = mailbox.RefreshServerConn(sc) }()
		go func() { defer wg.Done(); ncc, e1 = mailbox.RefreshClientConn(ctx, cc) }()
		wg.Wait()
		if e1 != nil || e2 != nil {
			if ncc != nil {
				_ = ncc.Close()
			}
			return fmt.Sprintf("refresh failed: client %v, server %v", e1, e2), false
		}
		cc, sc = ncc, nsc
	}
	return "", false
}
