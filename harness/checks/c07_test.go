package checks

import (
	"bytes"
	"context"
	"fmt"
	"sync"
	"testing"
	"testing/synctest"
	"time"

	"verifharness/eng"
	"verifharness/mon"
	"verifharness/sim"

	"github.com/lightninglabs/lightning-node-connect/gbn"
	"github.com/lightninglabs/lightning-node-connect/mailbox"
)

func TestC07(t *testing.T) {
	mon.Main(t, mon.Check{
		ID:    "C07",
		Level: "exploration",
		Rule:  "hostile bytes against the real code; a panic anywhere kills the worker and is attributed to the journalled case. (A) decoders: every byte string of <=3 bytes (quick) / every 4-byte string starting with a packet type (thorough) plus PRNG strings into gbn.Deserialize, MsgData.Deserialize and the websocket envelope decoding steps (regex wrapper + protojson), each under recover. (B) live GBN handshake: a real server is fed SYN with each of the 256 window values followed by SYNACK and a DATA/ACK/NACK exchange, truncated/oversized/unknown packets at every step; a real client is fed hostile replies. (C) live data phase: for N in {1,2,3} every reachable (outstanding k, base offset) sender state, for N in {20,254} sampled states: one hostile packet is injected - ACK and NACK with every one of the 256 sequence values, DATA with every sequence value and flag bytes {0,1,2,255} - then the window bookkeeping is read through the hook (base<S, top<S, size<=N) and the conversation continues. (E) websocket envelope end to end: a real ClientConn in websocket mode dials a local TLS websocket endpoint (certificate trusted through SSL_CERT_FILE) that answers its receive subscriptions with hostile text frames (malformed JSON, error envelopes, valid envelopes carrying hostile GBN packets). (D) Noise: PRNG-mutated, truncated and random acts into DoHandshake (both roles, XX and KK), hostile record streams into ReadMessage, NoiseGrpcConn.Read and NoiseConn.Read; act twos that authenticate - written through a hook by a responder that holds the right secret - with hostile length fields (v0: 0..65535 in a payload field of 0..1000 bytes; v1/v2: 0, body+-1, body+16/17, 2^16, 2^20, 2^26 and the values that wrap the 32-bit size computation) into the initiator's DoHandshake. (F) the stack live, real time: real ServerConn + ClientConn over the relay model with real NoiseGrpcConn handshakes and both applications writing and reading; the relay rewrites one message in flight (the j-th data packet of one direction, j in 0..8: an act of the Noise handshake or a record): hostile control-message framing in a valid GBN packet, a well-framed control message with hostile Noise bytes, another GBN packet, changed flag bytes, the payload of an earlier message of the same direction (replay) or of the opposite one (reflection); besides the panic oracle, what either application read must be a prefix of what its peer wrote. Non-trivial = every case (each injects hostile input); distinct = (kind, parameters).",
		Assumptions: []string{
			"the websocket envelope is exercised both through the decoding steps of websocketTransport.Recv (hook, bulk) and through a real TLS websocket on loopback (slice E)",
		},
		NCases: func(tier string) int {
			if tier == "thorough" {
				return 6000
			}
			return 1200
		},
		MinEvals: 100,
		Run:      runC07,
	})
}

func runC07(c *mon.Case) {
	switch c.Idx % 8 {
	case 0:
		runC07Decoders(c)
	case 1:
		runC07Handshake(c)
	case 2:
		runC07Noise(c)
	case 6:
		if (c.Idx/8)%5 == 1 {
			runC07Live(c)
		} else {
			runC07DataPhase(c)
		}
	case 7:
		if (c.Idx/8)%5 == 0 {
			runC07Websocket(c)
		} else {
			runC07DataPhase(c)
		}
	default:
		runC07DataPhase(c)
	}
}

func guard(c *mon.Case, what string, input []byte, f func()) {
	defer func() {
		if r := recover(); r != nil {
			c.Shard.Violate("decoder-panic|"+what, fmt.Sprintf("%s panicked on input %x: %v", what, trunc(input), r), map[string]any{"input_hex": fmt.Sprintf("%x", trunc(input))})
		}
	}()
	f()
}

func runC07Decoders(c *mon.Case) {
	k := c.Idx / 8
	var n int64
	feed := func(b []byte) {
		guard(c, "gbn.Deserialize", b, func() { _, _ = gbn.Deserialize(b) })
		guard(c, "MsgData.Deserialize", b, func() { _ = mailbox.NewMsgData(0, nil).Deserialize(b) })
		n += 2
	}
	env := func(b []byte) {
		guard(c, "websocket-envelope", b, func() { _, _ = mailbox.VerifDecodeWebsocketEnvelope(b) })
		n++
	}
	// slice k of the exhaustive space: first byte = k mod 256
	f := byte(k % 256)
	feed([]byte{f})
	for x := 0; x < 65536; x++ {
		feed([]byte{f, byte(x >> 8), byte(x)})
		if x < 256 {
			feed([]byte{f, byte(x)})
		}
	}
	if c.Tier == "thorough" && f >= 1 && f <= 6 {
		for y := 0; y < 256; y += 1 + (k/256)%3 {
			for x := 0; x < 65536; x++ {
				feed([]byte{f, byte(y), byte(x >> 8), byte(x)})
			}
		}
	}
	feed(nil)
	// MsgData with hostile length prefixes
	for _, l := range []uint32{0, 1, 4, 5, 0x7fffffff, 0x80000000, 0xffffffff, 0xfffffffb} {
		for _, tail := range []int{0, 1, 4, 5, 6, 100} {
			b := append([]byte{f, byte(l >> 24), byte(l >> 16), byte(l >> 8), byte(l)}, make([]byte, tail)...)
			feed(b)
		}
	}
	// websocket envelopes
	envs := []string{
		"", "{", "}", "{}", `{"result":}`, `{"result":{}}`, `{"result":null}`, `{"result":{"desc":{"stream_id":"AA=="},"msg":"AQ=="}}`,
		`{"result":{"msg":"!!!notbase64"}}`, `{"result":{"msg":123}}`, `{"result":[1,2,3]}`, `{"error":{"code":5,"message":"stream not found"}}`,
		`{"error":}`, `{"result":{"result":{"msg":"AA=="}}}`, `{"result":"` + string(bytes.Repeat([]byte{'A'}, 70000)) + `"}`,
		`{"result":{"desc":null,"msg":null}}`, `{"result":{"msg":"AA==","unknown":1}}`, "\x00\xff{\"result\":{}}", `{"result":{"msg":"AA=="}}{"result":{"msg":"AQ=="}}`,
	}
	for _, e := range envs {
		env([]byte(e))
	}
	// every truncation of well-formed envelopes
	for _, full := range []string{`{"result":{"desc":{"stream_id":"AA=="},"msg":"AQID"}}`, `{"error":{"code":5,"message":"stream not found"}}`} {
		for i := 0; i <= len(full); i++ {
			env([]byte(full[:i]))
			env([]byte(full[i:]))
		}
	}
	for i := 0; i < 2000; i++ {
		b := make([]byte, c.Rng.Intn(80))
		c.Rng.Read(b)
		feed(b)
		base := []byte(envs[c.Rng.Intn(len(envs))])
		if len(base) > 0 && len(base) < 1000 {
			base = append([]byte{}, base...)
			for m := 0; m < 1+c.Rng.Intn(3); m++ {
				base[c.Rng.Intn(len(base))] = byte(c.Rng.Intn(256))
			}
		}
		env(base)
	}
	c.Shard.Count("decoder_inputs", n)
	c.Shard.Eval(fmt.Sprintf("A|first=%d", f))
	if k == 2 {
		c.Shard.Sample(map[string]any{"kind": "A", "first_byte": f, "inputs": n})
	}
}

// gbnInvariant reads the window bookkeeping through the hook.
func gbnInvariant(g *gbn.GoBackNConn) string {
	st := g.VerifState()
	qs := g.VerifQueueS()
	if qs == 0 || st.S != st.N+1 || qs != st.N+1 {
		return fmt.Sprintf("sequence space broken: n=%d s=%d queue.s=%d", st.N, st.S, qs)
	}
	if st.Base >= qs || st.Top >= qs || st.Size > st.N {
		return fmt.Sprintf("window bookkeeping outside the valid range: base=%d top=%d size=%d with n=%d s=%d", st.Base, st.Top, st.Size, st.N, qs)
	}
	return ""
}

func runC07Handshake(c *mon.Case) {
	k := c.Idx / 8
	// two window values per case, so that 128 handshake cases (quick has
	// 150) cover all 256 values
	runC07HandshakeN(c, k, uint8((2*k)%256))
	runC07HandshakeN(c, k, uint8((2*k+1)%256))
}

func runC07HandshakeN(c *mon.Case, k int, n uint8) {
	rng := c.Rng
	hostile := [][]byte{{}, {1}, {2}, {2, 0}, {2, 0, 0}, {2, 0, 0, 0}, {3}, {4}, {5}, {6}, {0}, {7}, {255, 255, 255},
		{1, n, 9, 9, 9}, {6, 1, 2, 3}, {5, 5}, bytes.Repeat([]byte{2}, 70000), {3, 255}, {4, 255}, {2, 255, 255, 255}}
	conf := eng.GBNConf{N: 5, HSTimeout: time.Second, PingC: 2 * time.Second, PongC: time.Second, PingS: 2 * time.Second, PongS: time.Second}
	for variant := 0; variant < 7; variant++ {
		script := [][]byte{}
		desc := ""
		switch variant {
		case 0: // SYN(n), SYNACK, then a data phase exchange
			script = [][]byte{{sim.TSyn, n}, {sim.TSynAck}, {sim.TData, 0, 1, 0, 'x'}, {sim.TAck, 0}, {sim.TNack, 0}, {sim.TData, 1, 1, 0}, {sim.TNack, n}, {sim.TAck, n}}
			desc = fmt.Sprintf("SYN(%d) SYNACK DATA ACK NACK", n)
		case 1: // hostile packet before the SYN
			h := hostile[rng.Intn(len(hostile))]
			script = [][]byte{h, {sim.TSyn, n}, {sim.TSynAck}, {sim.TData, 0, 1, 0}}
			desc = fmt.Sprintf("hostile %x then SYN(%d)", trunc(h), n)
		case 2: // hostile packet instead of the SYNACK
			h := hostile[rng.Intn(len(hostile))]
			script = [][]byte{{sim.TSyn, n}, h, {sim.TSynAck}, {sim.TData, 0, 1, 0}}
			desc = fmt.Sprintf("SYN(%d) then hostile %x", n, trunc(h))
		case 3: // hostile packet in the data phase
			h := hostile[rng.Intn(len(hostile))]
			script = [][]byte{{sim.TSyn, 3}, {sim.TSynAck}, {sim.TData, 0, 1, 0, 'a'}, h, {sim.TData, 1, 1, 0, 'b'}}
			desc = fmt.Sprintf("data phase hostile %x", trunc(h))
		case 4: // random bytes throughout
			for i := 0; i < 8; i++ {
				b := make([]byte, rng.Intn(6))
				rng.Read(b)
				if len(b) > 0 && rng.Intn(2) == 0 {
					b[0] = byte(1 + rng.Intn(6))
				}
				script = append(script, b)
			}
			desc = "random packets"
		case 5: // client side: hostile replies
			desc = "client fed hostile replies"
		case 6: // every window value on the re-entry path: a SYN that arrives while the server waits for the SYNACK
			script = [][]byte{{sim.TSyn, 5}, {sim.TSyn, n}, {sim.TSynAck}, {sim.TData, 0, 1, 0, 'x'}, {sim.TAck, 0}, {sim.TNack, 1}, {sim.TData, 1, 1, 0, 'y'}}
			desc = fmt.Sprintf("SYN(5) SYN(%d) SYNACK DATA ACK NACK DATA", n)
		}
		rep := map[string]any{"kind": "B", "variant": variant, "script": desc}
		synctest.Test(c.T, func(t *testing.T) {
			ctx, cancel := context.WithCancel(context.Background())
			defer cancel()
			p := eng.NewPair(conf)
			if variant == 5 {
				// a fake server: answers the client's SYN with hostile data
				h := hostile[rng.Intn(len(hostile))]
				p.S2C.Inject(h)
				p.S2C.Inject([]byte{sim.TSyn, n})
				p.S2C.Inject([]byte{sim.TSyn, 5})
				p.S2C.Inject(hostile[rng.Intn(len(hostile))])
				p.S2C.Inject([]byte{sim.TNack, n})
				p.S2C.Inject([]byte{sim.TAck, n})
				// The constructor's context is the connection's context
				// for life: only a handshake that does not return within
				// 20 s is cancelled.
				hctx, hcancel := context.WithCancel(ctx)
				defer hcancel()
				tm := time.AfterFunc(20*time.Second, hcancel)
				g, err := gbn.NewClientConn(hctx, 5, p.C2S.Send, p.S2C.Recv, conf.ClientOpts()...)
				tm.Stop()
				if err == nil {
					time.Sleep(5 * time.Second)
					if d := gbnInvariant(g); d != "" {
						c.Shard.Violate("invariant|client", d, rep)
					}
					_ = g.Close()
				}
			} else {
				for _, b := range script {
					p.C2S.Inject(b)
				}
				hctx, hcancel := context.WithCancel(ctx)
				defer hcancel()
				tm := time.AfterFunc(20*time.Second, hcancel)
				g, err := gbn.NewServerConn(hctx, p.S2C.Send, p.C2S.Recv, conf.ServerOpts()...)
				tm.Stop()
				if err == nil {
					// let it chew on the rest, then use it
					time.Sleep(2 * time.Second)
					select {
					case <-g.VerifDone():
					default:
						if d := gbnInvariant(g); d != "" {
							c.Shard.Violate("invariant|server-after-handshake", d+" after "+desc, rep)
						}
						g.SetSendTimeout(time.Second)
						_ = g.Send([]byte("hello"))
						_ = g.Send([]byte("again"))
						time.Sleep(3 * time.Second)
						if d := gbnInvariant(g); d != "" {
							c.Shard.Violate("invariant|server-data-phase", d+" after "+desc, rep)
						}
					}
					_ = g.Close()
				}
			}
			cancel()
			p.C2S.Close()
			p.S2C.Close()
			if lk := eng.Settle(); len(lk) > 0 {
				c.Shard.Inconc("leak after hostile handshake (judged by C12): " + lk[0].CreatedBy())
				mon.FlushAndExit(c.Shard)
			}
		})
		c.Shard.Eval(fmt.Sprintf("B|v=%d|n=%d|%s", variant, n, desc))
		if k == 3 && variant == 0 {
			c.Shard.Sample(rep)
		}
	}
}

func runC07DataPhase(c *mon.Case) {
	rng := c.Rng
	k := c.Idx/8*5 + (c.Idx%8 - 3) // dense index over the C cases
	type state struct {
		n      uint8
		out    int // outstanding packets
		offset int // packets sent and acknowledged before
	}
	var states []state
	for _, n := range []int{1, 2, 3} {
		for out := 0; out <= n; out++ {
			for off := 0; off <= n; off++ {
				states = append(states, state{uint8(n), out, off})
			}
		}
	}
	st := states[k%len(states)]
	if k%7 == 6 {
		n := []int{20, 254}[rng.Intn(2)]
		st = state{uint8(n), rng.Intn(n + 1), rng.Intn(n + 1)}
	}
	kinds := []string{"ACK", "NACK", "DATA"}
	kind := kinds[(k/len(states))%3]
	// which slice of the 256 values this case covers: 32 values per case
	slice := (k / len(states) / 3) % 8
	var injected int
	for v := slice * 32; v < slice*32+32; v++ {
		flagSets := [][2]byte{{0, 0}}
		if kind == "DATA" {
			flagSets = [][2]byte{{1, 0}, {0, 1}, {2, 255}, {255, 2}}
		}
		for _, fl := range flagSets {
			var pkt []byte
			switch kind {
			case "ACK":
				pkt = []byte{sim.TAck, byte(v)}
			case "NACK":
				pkt = []byte{sim.TNack, byte(v)}
			default:
				pkt = []byte{sim.TData, byte(v), fl[0], fl[1], 'h', 'o', 's', 't'}
			}
			c07Inject(c, st.n, st.out, st.offset, pkt, kind, v)
			injected++
		}
	}
	c.Shard.Count("hostile_packets_injected", int64(injected))
	c.Shard.Eval(fmt.Sprintf("C|N=%d|out=%d|off=%d|%s|slice=%d", st.n, st.out, st.offset, kind, slice))
	if c.Idx%400 == 3 {
		c.Shard.Sample(map[string]any{"kind": "C", "N": st.n, "outstanding": st.out, "offset": st.offset, "packet": kind, "values": fmt.Sprintf("%d..%d", slice*32, slice*32+31)})
	}
}

func c07Inject(c *mon.Case, n uint8, out, offset int, pkt []byte, kind string, v int) {
	conf := eng.GBNConf{N: n, Static: true, Resend: 2 * time.Second, Lat: time.Millisecond}
	rep := map[string]any{"kind": "C", "N": n, "outstanding": out, "offset": offset, "hostile_packet": fmt.Sprintf("%x", pkt)}
	synctest.Test(c.T, func(t *testing.T) {
		ctx, cancel := context.WithCancel(context.Background())
		defer cancel()
		p := eng.NewPair(conf)
		ce, se := p.Connect(ctx)
		if ce != nil || se != nil {
			c.Shard.Inconc("handshake failed")
			p.CloseAll()
			return
		}
		var wg sync.WaitGroup
		wg.Add(1)
		recvd := 0
		go func() {
			defer wg.Done()
			for {
				if _, err := p.S.Recv(); err != nil {
					return
				}
				recvd++
			}
		}()
		// reach the state: `offset` acknowledged messages, then `out`
		// unacknowledged ones (the ACK direction is cut)
		for i := 0; i < offset; i++ {
			_ = p.C.Send(eng.MsgBytes('a', i, 6))
		}
		time.Sleep(20 * time.Millisecond)
		p.S2C.SetBlackhole(true, true)
		for i := 0; i < out; i++ {
			_ = p.C.Send(eng.MsgBytes('a', offset+i, 6))
		}
		time.Sleep(10 * time.Millisecond)
		pre := p.C.VerifState()
		rep["state_before"] = fmt.Sprintf("base=%d top=%d size=%d", pre.Base, pre.Top, pre.Size)
		// the hostile packet, as if delivered by the relay
		p.S2C.SetBlackhole(false, false)
		p.S2C.Inject(pkt)
		time.Sleep(5 * time.Millisecond)
		synctest.Wait()
		select {
		case <-p.C.VerifDone():
			// the endpoint failed the connection: allowed
		default:
			if d := gbnInvariant(p.C); d != "" {
				c.Shard.Violate("invariant|"+kind, fmt.Sprintf("after hostile %s(%d) in state base=%d top=%d size=%d (N=%d): %s", kind, v, pre.Base, pre.Top, pre.Size, n, d), rep)
			}
			// continue the conversation
			p.C.SetSendTimeout(5 * time.Second)
			_ = p.C.Send(eng.MsgBytes('a', offset+out, 6))
			time.Sleep(10 * time.Second)
			select {
			case <-p.C.VerifDone():
			default:
				if d := gbnInvariant(p.C); d != "" {
					c.Shard.Violate("invariant|"+kind+"|later", fmt.Sprintf("10s after hostile %s(%d) in state base=%d top=%d size=%d (N=%d): %s", kind, v, pre.Base, pre.Top, pre.Size, n, d), rep)
				}
			}
		}
		p.CloseAll()
		cancel()
		wg.Wait()
		if lk := eng.Settle(); len(lk) > 0 {
			c.Shard.Inconc("leak after hostile packet (judged by C12): " + lk[0].CreatedBy())
			mon.FlushAndExit(c.Shard)
		}
	})
}

// runC07Noise feeds hostile handshake acts and record streams to the noise
// layer.
func runC07Noise(c *mon.Case) {
	rng := c.Rng
	keyC, keyS := eng.NewKey(rng), eng.NewKey(rng)
	pass := eng.Entropy(rng)
	kk := rng.Intn(2) == 0
	var acts int
	// 1. mutate / truncate / replace acts of a real handshake
	for trial := 0; trial < 12; trial++ {
		mode := rng.Intn(5)
		target := rng.Intn(3)
		dirC2S := rng.Intn(2) == 0
		hook := func(idx int, p []byte) [][]byte {
			if idx != target%2 && idx != target {
				return [][]byte{p}
			}
			acts++
			q := append([]byte{}, p...)
			switch mode {
			case 0: // flip some bytes
				for m := 0; m < 1+rng.Intn(4); m++ {
					q[rng.Intn(len(q))] ^= byte(1 + rng.Intn(255))
				}
			case 1: // truncate
				q = q[:rng.Intn(len(q))]
			case 2: // random bytes of the same length
				rng.Read(q)
			case 3: // extend with garbage
				q = append(q, make([]byte, 1+rng.Intn(600))...)
			case 4: // version byte values
				q[0] = byte(rng.Intn(256))
			}
			return [][]byte{q}
		}
		cfg := eng.HSConfig{KK: kk, CMin: 0, CMax: 2, SMin: 0, SMax: 2, PassC: pass, PassS: pass, Auth: []byte("auth-payload-for-c07"), KeyC: keyC, KeyS: keyS}
		if kk {
			cfg.CMin, cfg.SMin = 2, 2
		}
		if dirC2S {
			cfg.HookC2S = hook
		} else {
			cfg.HookS2C = hook
		}
		guard(c, "noise.DoHandshake", nil, func() { _ = eng.RunHandshake(cfg) })
	}
	// 2. hostile record streams after a good handshake
	res := eng.RunHandshake(eng.HSConfig{KK: false, CMin: 0, CMax: 2, SMin: 0, SMax: 2, PassC: pass, PassS: pass, Auth: []byte("a"), KeyC: keyC, KeyS: keyS})
	if !res.OK() {
		c.Shard.Inconc(fmt.Sprintf("clean handshake failed: %v / %v", res.C.Err, res.S.Err))
		return
	}
	var wire bytes.Buffer
	for i := 0; i < 4; i++ {
		msg := make([]byte, []int{0, 1, 17, 300}[i])
		_ = res.C.M.WriteMessage(msg)
		_, _ = res.C.M.Flush(&wire)
	}
	good := wire.Bytes()
	records := 0
	for trial := 0; trial < 40; trial++ {
		b := append([]byte{}, good...)
		switch rng.Intn(4) {
		case 0:
			b[rng.Intn(len(b))] ^= byte(1 + rng.Intn(255))
		case 1:
			b = b[:rng.Intn(len(b))]
		case 2:
			rng.Read(b[:18])
		case 3:
			b = make([]byte, rng.Intn(100))
			rng.Read(b)
		}
		// a fresh responder machine per stream would need a new
		// handshake; hostile input after an error must not panic either,
		// so the same machine keeps reading.
		r := bytes.NewReader(b)
		guard(c, "noise.ReadMessage", b, func() {
			for i := 0; i < 6; i++ {
				if _, err := res.S.M.ReadMessage(r); err != nil {
					break
				}
			}
		})
		records++
	}
	// 3. a responder that holds the right secret but breaks the framing of
	// act two (the one act with a length-prefixed payload): the act
	// authenticates, so the initiator gets as far as interpreting the
	// length fields. Lengths that would make the initiator allocate more
	// than 64 MiB are left out (that is a resource question, not a crash).
	var hostile2 int
	for trial := 0; trial < 24; trial++ {
		spec := &mailbox.VerifHostileAct2{}
		smax := byte(rng.Intn(3))
		if kk {
			smax = 2
		}
		desc := ""
		if smax == 0 {
			plen := []int{500, 500, 500, 500, 0, 1, 2, 3, 499, 501, 516, 1000}[rng.Intn(12)]
			spec.V0Payload = make([]byte, plen)
			rng.Read(spec.V0Payload)
			lf := []int{0, 1, 2, 497, 498, 499, 500, 501, 502, 516, 1000, 32767, 32768, 65534, 65535, rng.Intn(65536)}[(trial+c.Idx/8)%16]
			if plen >= 2 {
				spec.V0Payload[0], spec.V0Payload[1] = byte(lf>>8), byte(lf)
			}
			desc = fmt.Sprintf("v0 payload of %d bytes, length field %d", plen, lf)
		} else {
			blen := []int{0, 1, 15, 16, 17, 100, 5000}[rng.Intn(7)]
			spec.Body = make([]byte, blen)
			rng.Read(spec.Body)
			lfs := []uint32{0, 1, uint32(blen), uint32(blen) + 1, uint32(blen) + 16, uint32(blen) + 17, 65535, 65536, 1 << 20, 1 << 26,
				0xffffffef, 0xfffffff0, 0xfffffff1, 0xfffffffe, 0xffffffff, uint32(rng.Intn(1 << 16))}
			if blen > 0 {
				lfs = append(lfs, uint32(blen)-1)
			}
			spec.LenField = lfs[(trial+c.Idx/8)%len(lfs)]
			if spec.LenField == 0xffffffef {
				// wraps to 0xffffffff bytes to read: out of the memory bound
				spec.LenField = 0xfffffff8
			}
			desc = fmt.Sprintf("v%d body of %d bytes, length field %d", smax, blen, spec.LenField)
		}
		cfg := eng.HSConfig{KK: kk, CMin: 0, CMax: 2, SMin: 0, SMax: smax, PassC: pass, PassS: pass, Auth: []byte("auth"), KeyC: keyC, KeyS: keyS, HostileAct2: spec}
		if kk {
			cfg.CMin, cfg.SMin = 2, 2
		}
		var res *eng.HSResult
		guard(c, "noise.DoHandshake|authenticated-act2", []byte(desc), func() { res = eng.RunHandshake(cfg) })
		if res != nil && res.C.NewErr == nil && res.S.NewErr == nil {
			hostile2++
			// an initiator that accepted the act holds a payload that fits
			// into what was sent
			if res.C.Done && res.C.Err == nil {
				got := res.C.CD.AuthData()
				max := len(spec.Body)
				if smax == 0 {
					max = 65535
				}
				if len(got) > max {
					c.Shard.Violate("noise-act2-payload-overrun", fmt.Sprintf("%s: the initiator completed and holds %d payload bytes", desc, len(got)), map[string]any{"case": desc})
				}
			}
		}
		c.Shard.Eval("D3|" + desc)
	}
	c.Shard.Count("noise_hostile_authenticated_act2", int64(hostile2))
	c.Shard.Count("noise_hostile_acts", int64(acts))
	c.Shard.Count("noise_hostile_streams", int64(records))
	c.Shard.Eval(fmt.Sprintf("D|kk=%v|%d", kk, c.Idx))
	if c.Idx%200 == 2 {
		c.Shard.Sample(map[string]any{"kind": "D", "kk": kk, "hostile_acts": acts, "hostile_streams": records})
	}
}
