package checks

import (
	"bytes"
	"context"
	"errors"
	"fmt"
	"math/rand"
	"net"
	"strings"
	"sync"
	"testing"
	"time"

	"verifharness/eng"
	"verifharness/mon"
	"verifharness/sim"

	"github.com/btcsuite/btclog/v2"
	"github.com/lightninglabs/lightning-node-connect/mailbox"
)

func TestC15(t *testing.T) {
	mon.Main(t, mon.Check{
		ID:          "C15",
		Level:       "exploration",
		Rule:        "three real connection types driven as net.Conn: (G) NoiseGrpcConn after real Client/ServerHandshake over an in-memory ProxyConn; (T) NoiseConn: client through mailbox.Dial with an in-memory dialer, server side wrapped as Listener.doHandshake does (hook); (L) the same pair through the real mailbox.Listener and mailbox.Dial over loopback TCP; (K) the plain mailbox connKit: real ClientConn and ServerConn (GBN inside) over the in-memory relay, no noise. For each, PRNG sequences of writes (sizes from {0,1,2,32767,32768,32769,65534,65535} and random, beyond 65535 up to 300000 on the TCP variant) and PRNG sequences of read-buffer sizes from {1,2,3,17,4096,32767,32768,32769,65535,100000} (+0..2). Oracles per Read: 0 <= n <= len(buf), bytes beyond n untouched, the bytes returned are the next bytes of the written stream; at the end the concatenation of reads equals the concatenation of writes; per Write: n == len(b) with a nil error, or an error; a write larger than one record on the gRPC variant returns ErrMaxMessageLengthExceeded and nothing of it reaches the reader, on the TCP variant it is chunked transparently. A twelfth of the cases interrupt a large write on the TCP variant with transport write timeouts and resume it with Flush/Write. A twelfth of the cases inject a transport write timeout into one record of the gRPC variant (header or body, nothing or half of it accepted), the caller retries once, and the reader must see exactly the bytes the Write calls reported as written. On the G and T variants one case in twelve writes 1050-1349 records of 1-60 bytes in one direction (two key rotations). In the TCP write-fault slice half of the senders offer the rest again before they flush (that Write must be refused; whatever it reports as written is taken at its word). A third of the Listener transfers start with a deadline prelude on the real sockets: SetDeadline then the two single setters with the zero time (and the other way round), or a read deadline that expires while nothing is in flight (must give a timeout error with n=0); after the old deadline has passed the transfer must be unaffected. (W) one case in twenty-four is the plain mailbox connection with the client on the real websocket transport (a local TLS websocket endpoint bridged to the relay model, the server on the gRPC-style client): writes up to 65535 bytes in both directions on the first connection and, after both ends closed and refreshed their connection objects, on the refreshed one; transport errors are repeated with the same inputs (three in a row count), wrong bytes count at once. Non-trivial = a transfer that used at least one read buffer smaller than a record and one larger; distinct = (variant, sizes hash).",
		Assumptions: []string{"a zero-length write produces an empty record; what Read returns for it (0 bytes) is not judged beyond the three clauses of the statement"},
		NCases: func(tier string) int {
			if tier == "thorough" {
				return 4000
			}
			return 240
		},
		MinEvals: 50,
		Watchdog: 20 * time.Minute,
		Run:      runC15,
	})
}

// fakeProxy is an in-memory mailbox.ProxyConn: a byte stream with the control
// methods stubbed.
type fakeProxy struct {
	*sim.Duplex
}

func (f *fakeProxy) Close() error                               { f.In.Close(); f.Out.Close(); return nil }
func (f *fakeProxy) LocalAddr() net.Addr                        { return &mailbox.Addr{Server: "fake"} }
func (f *fakeProxy) RemoteAddr() net.Addr                       { return &mailbox.Addr{Server: "fake"} }
func (f *fakeProxy) SetDeadline(time.Time) error                { return nil }
func (f *fakeProxy) SetReadDeadline(time.Time) error            { return nil }
func (f *fakeProxy) SetWriteDeadline(time.Time) error           { return nil }
func (f *fakeProxy) ReceiveControlMsg(mailbox.ControlMsg) error { return errors.New("unused") }
func (f *fakeProxy) SendControlMsg(mailbox.ControlMsg) error    { return errors.New("unused") }
func (f *fakeProxy) SetRecvTimeout(time.Duration)               {}
func (f *fakeProxy) SetSendTimeout(time.Duration)               {}

var _ mailbox.ProxyConn = (*fakeProxy)(nil)

type pipeConn struct {
	*sim.Duplex
}

func (p *pipeConn) Close() error                     { p.In.Close(); p.Out.Close(); return nil }
func (p *pipeConn) LocalAddr() net.Addr              { return &net.TCPAddr{} }
func (p *pipeConn) RemoteAddr() net.Addr             { return &net.TCPAddr{} }
func (p *pipeConn) SetDeadline(time.Time) error      { return nil }
func (p *pipeConn) SetReadDeadline(time.Time) error  { return nil }
func (p *pipeConn) SetWriteDeadline(time.Time) error { return nil }

// runC15WriteFault: on the gRPC variant the transport accepts a record's header
// and then fails the body write with a timeout. Whatever the caller does next
// (it retries once, as a caller that was told "0 bytes written" may), the
// reader must see exactly the bytes that the Write calls reported as written.
func runC15WriteFault(c *mon.Case) {
	rng := c.Rng
	pass := eng.Entropy(rng)
	da, db, a2b, _ := sim.NewDuplexPair()
	cp := eng.NewMboxParty(eng.NewKey(rng), nil, pass, nil, 0, 2)
	sp := eng.NewMboxParty(eng.NewKey(rng), nil, pass, []byte("auth"), 0, 2)
	var wg sync.WaitGroup
	var ce, se error
	var cc, sc net.Conn
	wg.Add(2)
	go func() {
		defer wg.Done()
		cc, _, ce = cp.Noise.ClientHandshake(context.Background(), "", &fakeProxy{da})
	}()
	go func() { defer wg.Done(); sc, _, se = sp.Noise.ServerHandshake(&fakeProxy{db}) }()
	wg.Wait()
	if ce != nil || se != nil {
		c.Shard.Inconc(fmt.Sprintf("handshake: %v / %v", ce, se))
		return
	}
	nw := 3 + rng.Intn(5)
	sizes := make([]int, nw)
	for i := range sizes {
		sizes[i] = 1 + rng.Intn(3000)
	}
	failAt := 1 + rng.Intn(nw-1)
	failBody := rng.Intn(2) == 0 // fail the body write, or the header write
	acceptPart := rng.Intn(3) == 0
	base := len(a2b.Written) // handshake writes so far
	a2b.WriteErr = func(idx int, p []byte) (int, error) {
		rel := idx - base
		target := 2 * failAt
		if failBody {
			target++
		}
		if rel == target {
			if acceptPart && len(p) > 1 {
				return len(p) / 2, timeoutErr{}
			}
			return 0, timeoutErr{}
		}
		return len(p), nil
	}
	// must: bytes of the writes that succeeded before the fault - the reader
	// has to get them. expect: everything any Write call reported as written
	// (a partially flushed record cannot be decrypted by the peer until it
	// is complete, so the reader may legitimately stop before those bytes).
	var expect, must []byte
	failed := false
	off := 0
	var log []string
	for i, sz := range sizes {
		data := eng.StreamBytes('f', off, sz)
		n, err := cc.Write(data)
		log = append(log, fmt.Sprintf("Write#%d(%d)=(%d,%v)", i, sz, n, err))
		if n < 0 || n > sz {
			c.Shard.Violate("contract|G|write-count", fmt.Sprintf("Write of %d bytes returned n=%d", sz, n), nil)
			return
		}
		expect = append(expect, data[:n]...)
		if err == nil && !failed {
			must = append(must, data...)
		}
		if err != nil {
			failed = true
			// the caller was told that only n bytes went out: it offers
			// the rest again, once
			n2, err2 := cc.Write(data[n:])
			log = append(log, fmt.Sprintf("retry(%d)=(%d,%v)", sz-n, n2, err2))
			if n2 >= 0 && n2 <= sz-n {
				expect = append(expect, data[n:n+n2]...)
			}
			if err2 != nil {
				break
			}
		}
		off += sz
	}
	a2b.Close() // end of stream for the reader
	var got []byte
	buf := make([]byte, 4096)
	for {
		n, err := sc.Read(buf)
		got = append(got, buf[:n]...)
		if err != nil {
			break
		}
	}
	rep := map[string]any{"variant": "G-write-fault", "writes": log, "fail_at_write": failAt, "fail_body": failBody, "partial": acceptPart}
	switch {
	case len(got) < len(must) || string(got[:len(must)]) != string(must):
		c.Shard.Violate("contract|G|write-fault-lost", fmt.Sprintf("after a transport write timeout in record #%d the reader received %d bytes, fewer than / different from the %d bytes of the writes that had succeeded before: %v", failAt, len(got), len(must), log), rep)
	case len(got) > len(expect) || string(got) != string(expect[:len(got)]):
		c.Shard.Violate("contract|G|write-fault", fmt.Sprintf("after a transport write timeout in record #%d the reader received %d bytes that are not a prefix of the %d bytes the Write calls reported as written (first difference at offset %d): %v", failAt, len(got), len(expect), firstDiff(got, expect), log), rep)
	}
	c.Shard.Count("write_fault_transfers", 1)
	c.Shard.Eval(fmt.Sprintf("GF|%d|%v|%v|%v", failAt, failBody, acceptPart, sizes))
	if c.Idx%60 == 0 {
		c.Shard.Sample(rep)
	}
}

// runC15WriteFaultTCP: on the TCP variant a large write is interrupted by
// transport write timeouts inside its records; the sender resumes as the
// Write/Flush contract says (Flush until done, then Write the rest) and the
// reader must see every byte exactly once.
func runC15WriteFaultTCP(c *mon.Case) {
	rng := c.Rng
	pass := eng.Entropy(rng)
	da, db, a2b, _ := sim.NewDuplexPair()
	keyC, keyS := eng.NewKey(rng), eng.NewKey(rng)
	var wg sync.WaitGroup
	var ce, se error
	var cc *mailbox.NoiseConn
	var sm *mailbox.Machine
	wg.Add(2)
	go func() {
		defer wg.Done()
		cc, ce = mailbox.Dial(keyC, &net.TCPAddr{IP: net.IPv4(127, 0, 0, 1), Port: 1}, pass, time.Second,
			func(network, addr string, timeout time.Duration) (net.Conn, error) { return &pipeConn{da}, nil })
	}()
	go func() {
		defer wg.Done()
		cd := mailbox.NewConnData(keyS, nil, pass, []byte("auth"), nil, nil)
		sm, se = mailbox.NewBrontideMachine(&mailbox.BrontideMachineConfig{
			Initiator: false, HandshakePattern: cd.HandshakePattern(), ConnData: cd,
			MinHandshakeVersion: mailbox.MinHandshakeVersion, MaxHandshakeVersion: mailbox.MaxHandshakeVersion,
		})
		if se == nil {
			se = sm.DoHandshake(db)
		}
		if se != nil {
			db.In.Close()
			db.Out.Close()
		}
	}()
	wg.Wait()
	if ce != nil || se != nil {
		c.Shard.Inconc(fmt.Sprintf("tcp noise handshake: %v / %v", ce, se))
		return
	}
	sc := mailbox.VerifNewNoiseConn(&pipeConn{db}, sm)
	total := 70000 + rng.Intn(200000)
	if rng.Intn(2) == 0 {
		// a single record (another code path of NoiseConn.Write)
		total = 1 + rng.Intn(65535)
	}
	data := eng.StreamBytes('t', 0, total)
	// interrupt some of the underlying writes (header and body writes
	// alternate), accepting a PRNG part of the bytes
	base := len(a2b.Written)
	faults := map[int]bool{}
	for i := 0; i < 1+rng.Intn(4); i++ {
		faults[rng.Intn(2*(total/65535+1))] = true
	}
	fr := rand.New(rand.NewSource(rng.Int63()))
	fired := 0
	// The shape of the timeout error is the transport's business: a bare
	// error value, a *net.OpError around it (what a socket returns), or an
	// error wrapped with %w by a layer in between (a proxy dialer). The
	// record must stay pending and resumable in every case.
	errKind := fr.Intn(3)
	mkErr := func() error {
		switch errKind {
		case 1:
			return &net.OpError{Op: "write", Net: "tcp", Err: timeoutErr{}}
		case 2:
			return fmt.Errorf("proxied connection: write: %w", timeoutErr{})
		}
		return timeoutErr{}
	}
	a2b.WriteErr = func(idx int, p []byte) (int, error) {
		if faults[idx-base] && len(p) > 0 {
			delete(faults, idx-base)
			fired++
			return fr.Intn(len(p)), mkErr()
		}
		return len(p), nil
	}
	var log []string
	off := 0
	probeWrite := rng.Intn(2) == 0
	probes := 0
	for guard := 0; off < total && guard < 100; guard++ {
		n, err := cc.Write(data[off:])
		log = append(log, fmt.Sprintf("Write(%d)=(%d,%v)", total-off, n, err))
		off += n
		for err != nil {
			// Half of the senders offer the rest again before they
			// flush: while a record is pending that Write must be
			// refused (and the sender then flushes); whatever it reports
			// as written is taken at its word.
			if probeWrite && off < total {
				n2, err2 := cc.Write(data[off:])
				log = append(log, fmt.Sprintf("Write-while-pending(%d)=(%d,%v)", total-off, n2, err2))
				off += n2
				probes++
				if err2 == nil {
					err = nil
					break
				}
			}
			var m int
			m, err = cc.Flush()
			log = append(log, fmt.Sprintf("Flush=(%d,%v)", m, err))
			off += m
			if guard++; guard > 100 {
				break
			}
		}
	}
	a2b.Close()
	var got []byte
	buf := make([]byte, 32768)
	for {
		n, err := sc.Read(buf)
		got = append(got, buf[:n]...)
		if err != nil {
			break
		}
	}
	rep := map[string]any{"variant": "T-write-fault", "total": total, "calls": log, "faults_fired": fired, "timeout_error_shape": []string{"bare", "*net.OpError", "wrapped with %w"}[errKind]}
	if string(got) != string(data) {
		c.Shard.Violate("contract|T|write-fault", fmt.Sprintf("a %d-byte write interrupted by %d transport write timeouts and resumed with Flush/Write: the reader received %d bytes, first difference at offset %d (sender's account of bytes written: %d): %v", total, fired, len(got), firstDiff(got, data), off, log), rep)
	}
	c.Shard.Count("write_fault_transfers_tcp", 1)
	c.Shard.Count("writes_offered_while_a_record_was_pending", int64(probes))
	if fired > 0 {
		c.Shard.Eval(fmt.Sprintf("TF|%d|%d", total, fired))
	} else {
		c.Shard.Eval("")
	}
}

// runC15Reuse: a NoiseGrpcConn is a credentials object that returns itself from
// ClientHandshake / ServerHandshake, so one object serves all connections of a
// session in turn. Connection 1 is abandoned after a read that left part of a
// record behind (the reader's buffer was smaller than the record, or the record
// larger than the 32 KiB read cap); then the same two objects handshake again
// over a fresh transport and connection 2 must deliver exactly what is written
// on connection 2.
func runC15Reuse(c *mon.Case) {
	rng := rand.New(rand.NewSource(c.Seed))
	pass := eng.Entropy(rng)
	cp := eng.NewMboxParty(eng.NewKey(rng), nil, pass, nil, 0, 2)
	sp := eng.NewMboxParty(eng.NewKey(rng), nil, pass, []byte("auth"), 0, 2)
	connect := func() (net.Conn, net.Conn, error) {
		da, db, _, _ := sim.NewDuplexPair()
		var wg sync.WaitGroup
		var ce, se error
		var cc, sc net.Conn
		wg.Add(2)
		go func() {
			defer wg.Done()
			cc, _, ce = cp.Noise.ClientHandshake(context.Background(), "", &fakeProxy{da})
		}()
		go func() { defer wg.Done(); sc, _, se = sp.Noise.ServerHandshake(&fakeProxy{db}) }()
		wg.Wait()
		if ce != nil || se != nil {
			return nil, nil, fmt.Errorf("handshake: %v / %v", ce, se)
		}
		return cc, sc, nil
	}
	readerIsClient := rng.Intn(2) == 0
	rounds := 2 + rng.Intn(3)
	rep := map[string]any{"variant": "G-reuse", "reader_is_client": readerIsClient, "connections": rounds}
	var script []string
	var prevW net.Conn // the writer's connection of the previous round (closed)
	lateWrite := func(when string) bool {
		// The holder of a closed connection writes to it once more (a
		// goroutine of the old transport that has not noticed yet). The
		// call must fail; it must not crash, and it must not reach
		// another connection (the stream comparison below sees that).
		if prevW == nil {
			return true
		}
		var n int
		var werr error
		panicked := func() (p any) {
			defer func() { p = recover() }()
			n, werr = prevW.Write([]byte("late write on the connection that was closed"))
			return nil
		}()
		c.Shard.Count("late_writes_on_closed_connections", 1)
		if panicked != nil {
			c.Shard.Violate("contract|G|write-after-close-panics", fmt.Sprintf("Write on a closed connection %s panicked: %v (script %v)", when, panicked, script), rep)
			return false
		}
		if werr == nil {
			c.Shard.Violate("contract|G|write-after-close-accepted", fmt.Sprintf("Write on a closed connection %s returned n=%d, err=nil (script %v)", when, n, script), rep)
			return false
		}
		return true
	}
	for round := 0; round < rounds; round++ {
		if round > 0 && rng.Intn(3) == 0 {
			// a handshake of the writer's credentials object that fails
			// (the transport is dead on arrival), then the late write
			dead, other, _, _ := sim.NewDuplexPair()
			other.In.Close()
			other.Out.Close()
			var herr error
			if readerIsClient {
				_, _, herr = sp.Noise.ServerHandshake(&fakeProxy{dead})
			} else {
				_, _, herr = cp.Noise.ClientHandshake(context.Background(), "", &fakeProxy{dead})
			}
			if herr == nil {
				c.Shard.Inconc("handshake over a dead transport succeeded")
				return
			}
			script = append(script, "failed handshake of the writer's credentials object")
			if !lateWrite("after a failed handshake of the same credentials object") {
				return
			}
		}
		cc, sc, err := connect()
		if err != nil {
			c.Shard.Violate("contract|G|reuse", fmt.Sprintf("connection #%d over the same credentials objects: %v (script %v)", round+1, err, script), rep)
			return
		}
		w, r := sc, cc
		if !readerIsClient {
			w, r = cc, sc
		}
		if round > 0 && rng.Intn(2) == 0 {
			if !lateWrite("while the next connection of the same credentials object is open") {
				return
			}
			script = append(script, "late write on the previous connection")
		}
		dir := byte('p' + round)
		nw := 1 + rng.Intn(4)
		sizes := make([]int, nw)
		total := 0
		for i := range sizes {
			sizes[i] = []int{1 + rng.Intn(200), 20000 + rng.Intn(45536), 32769 + rng.Intn(1000), 65535}[rng.Intn(4)]
			total += sizes[i]
		}
		// the last round is read completely; earlier ones are abandoned
		// after a number of bytes that usually ends inside a record
		stopAfter := total
		last := round == rounds-1
		if !last {
			stopAfter = 1 + rng.Intn(total)
		}
		werr := make(chan error, 1)
		go func() { _, err := eng.StreamWriter(w, dir, sizes); werr <- err }()
		got := 0
		bufs := []int{1, 7, 100, 4096, 32768, 40000, 70000}
		for got < stopAfter {
			bl := bufs[rng.Intn(len(bufs))]
			if !last && bl > stopAfter-got && rng.Intn(2) == 0 {
				bl = stopAfter - got
			}
			buf := make([]byte, bl)
			n, err := r.Read(buf)
			if n > 0 {
				exp := eng.StreamBytes(dir, got, n)
				if string(buf[:n]) != string(exp) {
					d := firstDiff(buf[:n], exp)
					what := "does not match what the peer wrote on this connection"
					for pr := 0; pr < round; pr++ {
						// recognise bytes of an earlier connection
						if bytes.Contains(streamOfRound(byte('p'+pr)), buf[d:minInt(n, d+16)]) && n-d >= 8 {
							what = fmt.Sprintf("is plaintext of connection #%d of the same object, which was abandoned with part of a record unread", pr+1)
						}
					}
					c.Shard.Violate("contract|G|reuse", fmt.Sprintf("connection #%d: byte %d of the stream %s (script %v)", round+1, got+d, what, script), rep)
					return
				}
				got += n
			}
			if err != nil {
				c.Shard.Violate("contract|G|reuse", fmt.Sprintf("connection #%d: Read failed after %d of %d bytes: %v (script %v)", round+1, got, total, err, script), rep)
				return
			}
		}
		script = append(script, fmt.Sprintf("conn%d: writes %v, reader stopped after %d of %d bytes", round+1, sizes, got, total))
		_ = cc.Close()
		_ = sc.Close()
		<-werr
		prevW = w
	}
	rep["script"] = script
	c.Shard.Count("reused_credentials_sessions", 1)
	c.Shard.Count("reused_credentials_connections", int64(rounds))
	c.Shard.Eval(fmt.Sprintf("GR|%v|%d|%x", readerIsClient, rounds, c.Seed&0xffff))
	if c.Idx%48 == 11 {
		c.Shard.Sample(rep)
	}
}

var roundStreams sync.Map

// streamOfRound returns the first 300 000 bytes of the deterministic stream of a
// connection of runC15Reuse.
func streamOfRound(dir byte) []byte {
	if v, ok := roundStreams.Load(dir); ok {
		return v.([]byte)
	}
	b := eng.StreamBytes(dir, 0, 300000)
	roundStreams.Store(dir, b)
	return b
}

func minInt(a, b int) int {
	if a < b {
		return a
	}
	return b
}

func runC15(c *mon.Case) {
	if c.Idx%24 == 11 {
		runC15Websocket(c)
		return
	}
	if c.Idx%12 == 2 {
		runC15Reuse(c)
		return
	}
	if c.Idx%12 == 7 {
		runC15WriteFaultTCP(c)
		return
	}
	if c.Idx%12 == 1 {
		runC15WriteFault(c)
		return
	}
	switch c.Idx % 6 {
	case 0, 1, 2:
		runC15Conn(c, "G")
	case 3:
		runC15Conn(c, "T")
	case 4:
		runC15Conn(c, "L")
	default:
		runC15Conn(c, "K")
	}
}

// connPair builds one connected pair of the requested variant.
func c15Pair(variant string, rng *rand.Rand) (a, b net.Conn, cleanup func(), err error) {
	switch variant {
	case "G":
		pass := eng.Entropy(rng)
		da, db, _, _ := sim.NewDuplexPair()
		cp := eng.NewMboxParty(eng.NewKey(rng), nil, pass, nil, 0, 2)
		sp := eng.NewMboxParty(eng.NewKey(rng), nil, pass, []byte("auth"), 0, 2)
		var wg sync.WaitGroup
		var ce, se error
		var cc, sc net.Conn
		wg.Add(2)
		go func() {
			defer wg.Done()
			cc, _, ce = cp.Noise.ClientHandshake(context.Background(), "", &fakeProxy{da})
		}()
		go func() { defer wg.Done(); sc, _, se = sp.Noise.ServerHandshake(&fakeProxy{db}) }()
		wg.Wait()
		if ce != nil || se != nil {
			return nil, nil, nil, fmt.Errorf("noise grpc handshake: %v / %v", ce, se)
		}
		return cc, sc, func() { cc.Close(); sc.Close() }, nil
	case "L":
		// the real Listener over loopback TCP and the real Dial
		pass := eng.Entropy(rng)
		keyC, keyS := eng.NewKey(rng), eng.NewKey(rng)
		ln, err := mailbox.NewListener(pass, keyS, "127.0.0.1:0", []byte("auth"))
		if err != nil {
			return nil, nil, nil, fmt.Errorf("listener: %v", err)
		}
		type acc struct {
			c   net.Conn
			err error
		}
		ach := make(chan acc, 1)
		go func() { c, err := ln.Accept(); ach <- acc{c, err} }()
		// In half of the cases the dialer's socket gathers what is written
		// within 20 ms into one segment (a proxy, Nagle, a busy sender), so
		// that the last handshake act and the first records arrive together.
		gather := rng.Intn(2) == 0
		cc, err := mailbox.Dial(keyC, ln.Addr(), pass, 5*time.Second, func(network, addr string, timeout time.Duration) (net.Conn, error) {
			cn, err := net.DialTimeout(network, addr, timeout)
			if err != nil || !gather {
				return cn, err
			}
			return &gatherConn{Conn: cn}, nil
		})
		if err != nil {
			ln.Close()
			return nil, nil, nil, fmt.Errorf("dial: %v", err)
		}
		if gather {
			// The accepting side's connection is resolved when it is
			// first used: the dialer's application must be able to write
			// before the listener has seen the last handshake act.
			lz := &lazyConn{resolve: func() (net.Conn, error) {
				select {
				case a := <-ach:
					return a.c, a.err
				case <-time.After(30 * time.Second):
					return nil, fmt.Errorf("accept timed out")
				}
			}}
			return cc, lz, func() { cc.Close(); lz.Close(); ln.Close() }, nil
		}
		var a acc
		select {
		case a = <-ach:
		case <-time.After(30 * time.Second):
			ln.Close()
			cc.Close()
			return nil, nil, nil, fmt.Errorf("accept timed out")
		}
		if a.err != nil {
			ln.Close()
			cc.Close()
			return nil, nil, nil, fmt.Errorf("accept: %v", a.err)
		}
		return cc, a.c, func() { cc.Close(); a.c.Close(); ln.Close() }, nil
	case "T":
		pass := eng.Entropy(rng)
		da, db, _, _ := sim.NewDuplexPair()
		keyC, keyS := eng.NewKey(rng), eng.NewKey(rng)
		var wg sync.WaitGroup
		var ce, se error
		var cc *mailbox.NoiseConn
		var sm *mailbox.Machine
		wg.Add(2)
		go func() {
			defer wg.Done()
			cc, ce = mailbox.Dial(keyC, &net.TCPAddr{IP: net.IPv4(127, 0, 0, 1), Port: 1}, pass, time.Second,
				func(network, addr string, timeout time.Duration) (net.Conn, error) { return &pipeConn{da}, nil })
		}()
		go func() {
			defer wg.Done()
			cd := mailbox.NewConnData(keyS, nil, pass, []byte("auth"), nil, nil)
			sm, se = mailbox.NewBrontideMachine(&mailbox.BrontideMachineConfig{
				Initiator: false, HandshakePattern: cd.HandshakePattern(), ConnData: cd,
				MinHandshakeVersion: mailbox.MinHandshakeVersion, MaxHandshakeVersion: mailbox.MaxHandshakeVersion,
			})
			if se == nil {
				se = sm.DoHandshake(db)
			}
			if se != nil {
				db.In.Close()
				db.Out.Close()
			}
		}()
		wg.Wait()
		if ce != nil || se != nil {
			return nil, nil, nil, fmt.Errorf("tcp noise handshake: %v / %v", ce, se)
		}
		sc := mailbox.VerifNewNoiseConn(&pipeConn{db}, sm)
		return cc, sc, func() { cc.Close(); sc.Close() }, nil
	case "K":
		relay := sim.NewRelay()
		relay.KeepLog, relay.KeepMsg = false, false
		var sid [64]byte
		rng.Read(sid[:])
		ctx, cancel := context.WithCancel(context.Background())
		var wg sync.WaitGroup
		var ce, se error
		var cc *mailbox.ClientConn
		var sc *mailbox.ServerConn
		wg.Add(2)
		go func() {
			defer wg.Done()
			sc, se = mailbox.NewServerConn(ctx, "relay", relay, sid, btclog.Disabled, func(mailbox.ServerStatus) {})
		}()
		go func() {
			defer wg.Done()
			cc, ce = mailbox.NewClientConn(ctx, sid, "relay", relay, btclog.Disabled, func(mailbox.ClientStatus) {})
		}()
		wg.Wait()
		if ce != nil || se != nil {
			cancel()
			return nil, nil, nil, fmt.Errorf("mailbox conn: %v / %v", ce, se)
		}
		return cc, sc, func() { cc.Close(); sc.Stop(); cancel() }, nil
	}
	return nil, nil, nil, fmt.Errorf("unknown variant")
}

func runC15Conn(c *mon.Case, variant string) { runC15ConnAttempt(c, variant, 0) }

// runC15ConnAttempt runs one transfer. The K variant is a real GBN connection
// over the relay on the real clock: on a loaded machine it can die of its own
// timers (a retransmitted SYN makes the first connection dead on arrival). A
// transfer that fails with a transport error and a correct prefix is therefore
// repeated with the same inputs, and only a failure that shows three times in a
// row is reported.
func runC15ConnAttempt(c *mon.Case, variant string, attempt int) {
	rng := rand.New(rand.NewSource(c.Seed))
	a, b, cleanup, err := c15Pair(variant, rng)
	if err != nil {
		c.Shard.Inconc(variant + ": " + err.Error())
		return
	}
	defer cleanup()
	maxW := 65535
	if variant == "T" || variant == "L" {
		maxW = 300000
	}
	if variant == "K" {
		maxW = 100000 // the plain mailbox connection has no record limit
	}
	nw := 3 + rng.Intn(12)
	if variant == "K" {
		nw = 3 + rng.Intn(5) // every record is a real GBN message over the relay
	}
	sizes := eng.RandSizesStream(rng, nw, maxW)
	// Long sequences of small writes: the cipher state rotates its key every
	// 500 records, so a connection must also be followed across several
	// rotations (1050..1349 records in one direction).
	long := (variant == "G" && c.Idx%12 == 0) || (variant == "T" && c.Idx%12 == 3)
	if long {
		nw = 1050 + rng.Intn(300)
		sizes = make([]int, nw)
		for i := range sizes {
			sizes[i] = 1 + rng.Intn(60)
		}
		c.Shard.Count("long_sequences_across_key_rotations", 1)
	}
	if (variant == "T" || variant == "L") && rng.Intn(2) == 0 {
		sizes[rng.Intn(nw)] = 65536 + rng.Intn(200000)
	}
	if (variant == "T" || variant == "L") && rng.Intn(3) == 0 {
		sizes[rng.Intn(nw)] = 65535 * (1 + rng.Intn(3)) // exact multiple
	}
	oversize := -1
	if variant == "G" && rng.Intn(3) == 0 {
		oversize = rng.Intn(nw)
	}
	fromA := rng.Intn(2) == 0
	w, r := a, b
	if !fromA {
		w, r = b, a
	}
	total := 0
	for i, s := range sizes {
		if i != oversize {
			total += s
		}
	}
	_, lazyA := a.(*lazyConn)
	_, lazyB := b.(*lazyConn)
	if variant == "L" && c.Idx%3 == 1 && !lazyA && !lazyB {
		// Deadlines on the real sockets before the transfer: armed through
		// one setter and cleared through another (SetDeadline, then the two
		// single setters with the zero time, and the other way round), and a
		// read deadline that expires while nothing is in flight. Once they
		// are cleared and their time has passed, the transfer below must
		// not be affected.
		mode := rng.Intn(4)
		past := time.Now().Add(120 * time.Millisecond)
		var derr error
		note := func(err error) {
			if err != nil && derr == nil {
				derr = err
			}
		}
		for _, cn := range []net.Conn{a, b} {
			switch mode {
			case 0:
				note(cn.SetDeadline(past))
				note(cn.SetReadDeadline(time.Time{}))
				note(cn.SetWriteDeadline(time.Time{}))
			case 1:
				note(cn.SetReadDeadline(past))
				note(cn.SetWriteDeadline(past))
				note(cn.SetDeadline(time.Time{}))
			case 2:
				note(cn.SetDeadline(past))
				note(cn.SetDeadline(time.Time{}))
			}
		}
		if mode == 3 {
			note(r.SetReadDeadline(past))
			n, err := r.Read(make([]byte, 16))
			var ne net.Error
			if n != 0 || err == nil || !errors.As(err, &ne) || !ne.Timeout() {
				c.Shard.Violate("contract|L|deadline", fmt.Sprintf("a Read with a read deadline 120 ms ahead and nothing in flight returned n=%d err=%v (expected a timeout error)", n, err), nil)
				return
			}
			note(r.SetReadDeadline(time.Time{}))
		}
		if derr != nil {
			c.Shard.Inconc("L: a deadline setter failed: " + derr.Error())
			return
		}
		time.Sleep(time.Until(past) + 80*time.Millisecond)
		c.Shard.Count("deadline_preludes", 1)
	}
	closeAfterWrite := variant == "L" && rng.Intn(2) == 0
	if closeAfterWrite {
		// make the writer run well ahead of the reader
		sizes = append(sizes, 200000+rng.Intn(100000), 150000+rng.Intn(100000))
		total += sizes[len(sizes)-1] + sizes[len(sizes)-2]
	}
	rep := map[string]any{"variant": variant, "writes": sizes, "oversized_write_at": oversize, "from_client": fromA, "writer_closes_after_last_write": closeAfterWrite}
	bufs := []int{1, 2, 3, 17, 4096, 32767, 32768, 32769, 65535, 100000}
	var viol []string
	var vmu sync.Mutex
	bad := func(s string) {
		vmu.Lock()
		viol = append(viol, s)
		vmu.Unlock()
	}
	// rng is not safe for concurrent use: everything the two goroutines
	// need from it is drawn before they start.
	bigLen := 65536 + rng.Intn(3)
	readerSeed := rng.Int63()
	var wg sync.WaitGroup
	wg.Add(2)
	go func() { // writer
		defer wg.Done()
		off := 0
		for i, sz := range sizes {
			if i == oversize {
				big := make([]byte, bigLen)
				for j := range big {
					big[j] = 0xEE
				}
				n, err := w.Write(big)
				if err == nil {
					bad(fmt.Sprintf("Write of %d bytes (more than one record) returned n=%d, err=nil on the %s variant", len(big), n, variant))
				} else if n != 0 {
					bad(fmt.Sprintf("oversized Write failed with %v but reported %d bytes written", err, n))
				}
				continue
			}
			data := eng.StreamBytes('s', off, sz)
			n, err := w.Write(data)
			if err != nil {
				bad(fmt.Sprintf("Write #%d of %d bytes failed: %v", i, sz, err))
				return
			}
			if n != sz {
				bad(fmt.Sprintf("Write #%d of %d bytes returned n=%d with a nil error (silent truncation)", i, sz, n))
				return
			}
			off += sz
		}
		// On the TCP variant the writer may hang up right after its last
		// Write returned: a graceful close still delivers what was written.
		if closeAfterWrite {
			_ = w.Close()
		}
	}()
	small, large := false, false
	got := 0
	go func() { // reader
		defer wg.Done()
		br := rand.New(rand.NewSource(readerSeed))
		deadline := time.Now().Add(120 * time.Second)
		for got < total {
			if time.Now().After(deadline) {
				bad(fmt.Sprintf("reader still waiting after 120 s: %d of %d bytes", got, total))
				return
			}
			bl := bufs[br.Intn(len(bufs))] + br.Intn(3)
			if closeAfterWrite {
				time.Sleep(200 * time.Microsecond)
				if bl < 1000 {
					bl = 4096
				}
			}
			buf := make([]byte, bl)
			for i := range buf {
				buf[i] = 0xA5
			}
			n, err := r.Read(buf)
			if n < 0 || n > len(buf) {
				bad(fmt.Sprintf("Read into a %d-byte buffer reported %d bytes", len(buf), n))
				return
			}
			if n > 0 {
				exp := eng.StreamBytes('s', got, n)
				if string(buf[:n]) != string(exp) {
					bad(fmt.Sprintf("Read returned %d bytes at stream offset %d that differ from what was written (first difference at offset %d; buffer %d)", n, got, got+firstDiff(buf[:n], exp), bl))
					return
				}
			}
			for i := n; i < len(buf); i++ {
				if buf[i] != 0xA5 {
					bad(fmt.Sprintf("Read returned %d but touched byte %d of its %d-byte buffer", n, i, len(buf)))
					return
				}
			}
			got += n
			if bl < 4096 {
				small = true
			} else {
				large = true
			}
			if err != nil {
				bad(fmt.Sprintf("Read failed after %d of %d bytes: %v", got, total, err))
				return
			}
		}
	}()
	done := make(chan struct{})
	go func() { wg.Wait(); close(done) }()
	select {
	case <-done:
	case <-time.After(150 * time.Second):
		bad("transfer did not finish within 150 s")
		cleanup()
		<-done
	}
	if variant == "K" && len(viol) > 0 {
		transportOnly := true
		for _, v := range viol {
			if !(strings.HasPrefix(v, "Read failed after") || strings.Contains(v, "bytes failed:") ||
				strings.HasPrefix(v, "reader still waiting") || strings.HasPrefix(v, "transfer did not finish")) {
				transportOnly = false
			}
		}
		if transportOnly && attempt < 2 {
			c.Shard.Count("K_transport_failures_repeated", 1)
			runC15ConnAttempt(c, variant, attempt+1)
			return
		}
		if transportOnly {
			rep["attempts"] = attempt + 1
		}
	}
	if attempt > 0 && len(viol) == 0 {
		c.Shard.Inconc(fmt.Sprintf("case %d: the mailbox connection failed %d time(s) with a transport error and then transferred everything correctly with the same inputs (load)", c.Idx, attempt))
	}
	for _, v := range viol {
		kind := "contract"
		c.Shard.Violate(kind+"|"+variant, variant+": "+v, rep)
	}
	// After Close both calls fail, at once, on either end (whoever still
	// holds the connection must not be served by it, nor crash).
	if len(viol) == 0 {
		cleanup()
		for name, cn := range map[string]net.Conn{"writer": w, "reader": r} {
			type res struct {
				n   int
				err error
				p   any
			}
			try := func(f func() (int, error)) res {
				ch := make(chan res, 1)
				go func() {
					var o res
					defer func() { o.p = recover(); ch <- o }()
					o.n, o.err = f()
				}()
				select {
				case o := <-ch:
					return o
				case <-time.After(20 * time.Second):
					return res{err: fmt.Errorf("still blocked after 20 s"), n: -1}
				}
			}
			ow := try(func() (int, error) { return cn.Write([]byte("after close")) })
			or := try(func() (int, error) { return cn.Read(make([]byte, 16)) })
			switch {
			case ow.p != nil || or.p != nil:
				c.Shard.Violate("contract|"+variant+"|after-close-panics", fmt.Sprintf("%s: a call on the %s's connection after Close panicked: write %v / read %v", variant, name, ow.p, or.p), rep)
			case ow.n == -1 || or.n == -1:
				c.Shard.Violate("contract|"+variant+"|after-close-blocks", fmt.Sprintf("%s: a call on the %s's connection after Close blocked: write %v / read %v", variant, name, ow.err, or.err), rep)
			case ow.err == nil:
				c.Shard.Violate("contract|"+variant+"|write-after-close-accepted", fmt.Sprintf("%s: Write on the %s's connection after Close returned n=%d, err=nil", variant, name, ow.n), rep)
			case or.err == nil && or.n > 0:
				c.Shard.Violate("contract|"+variant+"|read-after-close-data", fmt.Sprintf("%s: Read on the %s's connection after Close returned %d bytes", variant, name, or.n), rep)
			}
		}
		c.Shard.Count("calls_after_close_checked", 4)
	}
	c.Shard.Count("bytes_"+variant, int64(got))
	c.Shard.Count("transfers_"+variant, 1)
	if small && large {
		c.Shard.Eval(fmt.Sprintf("%s|%v|%d|%v", variant, sizes, oversize, fromA))
	} else {
		c.Shard.Eval("")
	}
	if c.Idx%40 < 6 && c.Idx%40 == c.Idx%6 {
		rep["bytes"] = got
		c.Shard.Sample(rep)
	}
}

// gatherConn delays writes by up to 20 ms and sends what has accumulated in one
// Write of the underlying connection; a Read flushes first.
type gatherConn struct {
	net.Conn
	mu      sync.Mutex
	pending []byte
	timer   *time.Timer
	werr    error
	closed  bool
}

func (g *gatherConn) flushLocked() {
	if g.timer != nil {
		g.timer.Stop()
		g.timer = nil
	}
	if len(g.pending) > 0 && g.werr == nil {
		_, g.werr = g.Conn.Write(g.pending)
	}
	g.pending = nil
}

func (g *gatherConn) Write(p []byte) (int, error) {
	g.mu.Lock()
	defer g.mu.Unlock()
	if g.closed {
		return 0, net.ErrClosed
	}
	if g.werr != nil {
		return 0, g.werr
	}
	g.pending = append(g.pending, p...)
	if len(g.pending) > 1<<20 {
		g.flushLocked()
	} else if g.timer == nil {
		g.timer = time.AfterFunc(20*time.Millisecond, func() {
			g.mu.Lock()
			g.flushLocked()
			g.mu.Unlock()
		})
	}
	return len(p), g.werr
}

func (g *gatherConn) Read(p []byte) (int, error) {
	g.mu.Lock()
	g.flushLocked()
	g.mu.Unlock()
	return g.Conn.Read(p)
}

func (g *gatherConn) Close() error {
	g.mu.Lock()
	g.flushLocked()
	g.closed = true
	g.mu.Unlock()
	return g.Conn.Close()
}

// lazyConn is a net.Conn that is obtained on first use.
type lazyConn struct {
	resolve func() (net.Conn, error)
	once    sync.Once
	c       net.Conn
	err     error
}

func (l *lazyConn) get() (net.Conn, error) {
	l.once.Do(func() { l.c, l.err = l.resolve() })
	if l.err != nil || l.c == nil {
		if l.err == nil {
			l.err = fmt.Errorf("no connection")
		}
		return nil, l.err
	}
	return l.c, nil
}

func (l *lazyConn) Read(p []byte) (int, error) {
	c, err := l.get()
	if err != nil {
		return 0, err
	}
	return c.Read(p)
}

func (l *lazyConn) Write(p []byte) (int, error) {
	c, err := l.get()
	if err != nil {
		return 0, err
	}
	return c.Write(p)
}

func (l *lazyConn) Close() error {
	c, err := l.get()
	if err != nil {
		return err
	}
	return c.Close()
}

func (l *lazyConn) LocalAddr() net.Addr                { return &net.TCPAddr{} }
func (l *lazyConn) RemoteAddr() net.Addr               { return &net.TCPAddr{} }
func (l *lazyConn) SetDeadline(t time.Time) error      { return nil }
func (l *lazyConn) SetReadDeadline(t time.Time) error  { return nil }
func (l *lazyConn) SetWriteDeadline(t time.Time) error { return nil }
