package checks

import (
	"bytes"
	"context"
	"encoding/hex"
	"errors"
	"fmt"
	"io"
	"math/rand"
	"net"
	"os"
	"strings"
	"sync"
	"sync/atomic"
	"testing"
	"time"

	"verifharness/eng"
	"verifharness/mon"
	"verifharness/sim"

	"github.com/anishathalye/porcupine"
	"github.com/lightninglabs/lightning-node-connect/mailbox"
)

func TestC11(t *testing.T) {
	mon.Main(t, mon.Check{
		ID:          "C11",
		Level:       "exploration",
		Rule:        "real mailbox.Server (Accept) and mailbox.Client (Dial) over the in-memory relay with real NoiseGrpcConn handshakes and gRPC-like drivers (the listener calls Accept again at once; the dialer re-dials when its connection is done; failed handshakes close the connection), in real time, sessions in parallel. Each session runs a PRNG-ordered script: first pairing with the passphrase (XX, version 2), echo transfer, then a sequence drawn from {close by client, close by server (the client's pending read must fail within 5 s: the close is signalled), relay failure window (every relay Send/Recv fails for 2-4 s), relay restart (all mailboxes dropped), a malformed packet in the listener's mailbox while it waits for the next SYN (that attempt fails inside Accept; the accept loop, like grpc.Server.Serve, goes on only if the error says it is temporary), idle}; in a third of the sessions the relay refuses the first one or two mailbox deletions (the ones the listener issues when it leaves the passphrase rendezvous), in a third a stray SYN with another window lies in the dialer's mailbox at the key-derived rendezvous when it is first created (the first dial after the pairing fails in its GBN handshake; the next must go to the same rendezvous), each followed by an echo that must succeed on the current or on a freshly handed-out connection, and finally an intruder: a different client that holds only the original passphrase dials and handshakes for 14 s (a legitimate client needs 4-5 s). Oracles: (1) whenever Accept / Dial hands out connection k+1, connection k's Done channel is already closed (checked at the hand-out), and the acquire/release history is a linearization of a one-slot lock (porcupine); (2) after every close / failure a fresh connection is handed out and the echo works within 90 s (a miss is re-run alone before it counts); (3) after the version-2 pairing both sides hold each other's key, every later connection uses the ECDH-derived stream ids on both sides (read from the connections' addresses and from the relay's log), its handshake is the key-based pattern, the passphrase boxes are deleted, and the intruder completes no handshake and receives no auth payload. A quarter of the sessions use the listener and dialer without noise: the peer writes a message, the reader consumes only a part of it, both sides close, and the next connection handed out must deliver exactly what is written on it (nothing left over from its predecessor), for 2-4 generations. A third of the sessions have their first one or two stream closes report an error; in half of the garbage-to-listener events the dialer is held in back-off so that the malformed packet is the first packet of the listener's refreshed handshake; the dial loop gives every attempt a context of its own that is cancelled once the transport is up (as grpc does). Non-trivial = a session that paired (or exchanged raw data) and reconnected at least once; distinct = script.",
		Assumptions: []string{"real time: liveness verdicts follow the re-run rule; exclusivity and rendezvous verdicts do not depend on time"},
		NCases: func(tier string) int {
			if tier == "thorough" {
				return 640
			}
			return 16
		},
		MinEvals: 8,
		Watchdog: 30 * time.Minute,
		Run:      runC11,
	})
}

const c11Batch = 8

func runC11(c *mon.Case) {
	var wg sync.WaitGroup
	seeds := make([]int64, c11Batch)
	for i := range seeds {
		seeds[i] = c.Rng.Int63()
	}
	for i := 0; i < c11Batch; i++ {
		wg.Add(1)
		go func(i int) {
			defer wg.Done()
			tStart := time.Now()
			defer func() {
				c.Shard.Max("max_session_real_s", int64(time.Since(tStart).Seconds()))
				if el := time.Since(tStart); el > 70*time.Second && getenv("C11_DEBUG") != "" {
					fmt.Fprintf(os.Stderr, "SLOW session case %d i %d: %v\n", c.Idx, i, el)
				}
			}()
			var r *c11Result
			if c.Idx == 0 && i == 0 {
				// one targeted session per run: act three of the first
				// pairing arrives after the server's handshake read
				// timeout (see the known finding "pairing-desync")
				c11LateActThree(c, seeds[i])
				return
			}
			if i%4 == 3 {
				r = c11RawSession(seeds[i], 90*time.Second)
			} else {
				r = c11Session(seeds[i], 90*time.Second)
			}
			for _, v := range r.safety {
				c.Shard.Violate(v[0], v[1], r.rep)
			}
			if r.stuck != "" && len(r.safety) == 0 {
				var r2 *c11Result
				if i%4 == 3 {
					r2 = c11RawSession(seeds[i], 240*time.Second)
				} else {
					r2 = c11Session(seeds[i], 240*time.Second)
				}
				switch {
				case r2.stuck == "":
					c.Shard.Inconc(fmt.Sprintf("session seed %d: %s - completed on the re-run", seeds[i], r.stuck))
				case r2.desync:
					c.Shard.Violate("pairing-desync", fmt.Sprintf("reproduced with a 240 s allowance: %s; the client completed the first handshake and moved to the key-derived rendezvous, the server did not complete it and stays on the passphrase rendezvous", r2.stuck), r2.rep)
				default:
					c.Shard.Violate("no-fresh-connection|"+r2.stuckStep, fmt.Sprintf("reproduced with a 240 s allowance: %s", r2.stuck), r2.rep)
				}
			}
			c.Shard.Count("sessions", 1)
			c.Shard.Count("connections_handed_out", int64(r.conns))
			c.Shard.Count("echoes", int64(r.echoes))
			c.Shard.Count("reconnects", int64(r.reconnects))
			c.Shard.Count("failed_mailbox_deletions_injected", int64(r.delFaults))
			if r.paired && r.reconnects > 0 {
				if r.delFaults > 0 {
					r.script += "|delfail"
				}
				c.Shard.Eval(r.script)
			} else {
				c.Shard.Eval("")
			}
			if i == 0 {
				c.Shard.Sample(r.rep)
			}
		}(i)
	}
	wg.Wait()
}

type c11Result struct {
	desync     bool
	safety     [][2]string
	stuck      string
	stuckStep  string
	script     string
	paired     bool
	conns      int
	echoes     int
	reconnects int
	delFaults  int
	rep        map[string]any
}

func sidHex(sid [64]byte) string { return hex.EncodeToString(sid[:]) }

func c11Session(seed int64, patience time.Duration) *c11Result {
	rng := rand.New(rand.NewSource(seed))
	res := &c11Result{rep: map[string]any{"seed": fmt.Sprint(seed)}}
	pass := eng.Entropy(rng)
	auth := authMarker(rng, 200)
	relay := sim.NewRelay()
	relay.KeepMsg = false
	keyS, keyC := eng.NewKey(rng), eng.NewKey(rng)
	outdated := rng.Intn(3) == 0
	sMin := byte(0)
	if outdated {
		sMin = 1 // the listener no longer accepts version 0 clients
	}
	s := eng.NewMboxParty(keyS, nil, pass, auth, sMin, 2)
	// an initiator opens with its minimum version, so the up-to-date client
	// of a min-1 listener has minimum 1 as well
	cl := eng.NewMboxParty(keyC, nil, pass, nil, sMin, 2)
	m, err := eng.NewMboxSession(relay, s, cl)
	if err != nil {
		res.safety = append(res.safety, [2]string{"setup", err.Error()})
		return res
	}
	var failing atomic.Bool
	breakErr := errors.New("rpc error: code = Unavailable desc = relay down (injected)")
	// A third of the sessions lose the first one or two mailbox deletions (the
	// relay is briefly unreachable just when the listener tears down the
	// passphrase mailboxes after the pairing).
	var delFail atomic.Int64
	if rng.Intn(3) == 0 {
		delFail.Store(int64(1 + rng.Intn(2)))
		res.delFaults = int(delFail.Load())
		res.rep["failed_mailbox_deletions"] = res.delFaults
	}
	// In a third of the sessions the first one or two stream closes of the
	// parties report an error (the relay end of the stream was gone first):
	// the connection is closed all the same and the next one must come.
	var closeFail atomic.Int64
	if rng.Intn(3) == 0 {
		closeFail.Store(int64(1 + rng.Intn(2)))
		res.rep["failed_stream_closes"] = closeFail.Load()
	}
	// In a third of the sessions a stray packet of some earlier conversation
	// (a SYN proposing another window) lies in the dialer's mailbox at the
	// key-derived rendezvous when that mailbox is first created: the first
	// dial after the pairing fails in its GBN handshake, and the dialer's
	// next attempt must still go to the key-derived rendezvous.
	keySIDEarly, _ := mailbox.NewConnData(keyC, keyS.PubKey(), pass, nil, nil, nil).SID()
	newClientBox := sidHex(mailbox.GetSID(keySIDEarly, true))
	var stray atomic.Bool
	if rng.Intn(3) == 0 {
		stray.Store(true)
		res.rep["stray_packet_at_new_rendezvous"] = true
	}
	relay.Fault = func(op sim.RelayOp) sim.RelayAction {
		if op.Kind == "newbox" && op.Stream == newClientBox && stray.CompareAndSwap(true, false) {
			go func() {
				for i := 0; i < 400; i++ {
					if relay.Inject(newClientBox, []byte{sim.TSyn, 5}) {
						return
					}
					time.Sleep(5 * time.Millisecond)
				}
			}()
		}
		if op.Kind == "closesend" || op.Kind == "closerecv" {
			if closeFail.Add(-1) >= 0 {
				return sim.RelayAction{Fail: breakErr}
			}
			return sim.RelayAction{}
		}
		if failing.Load() {
			return sim.RelayAction{Fail: breakErr}
		}
		if op.Kind == "delbox" && delFail.Add(-1) >= 0 {
			return sim.RelayAction{Fail: breakErr}
		}
		return sim.RelayAction{}
	}
	bad := func(key, desc string) { res.safety = append(res.safety, [2]string{key, desc}) }

	// expected rendezvous
	passSID, _ := mailbox.NewConnData(keyC, nil, pass, nil, nil, nil).SID()
	keySID, _ := mailbox.NewConnData(keyC, keyS.PubKey(), pass, nil, nil, nil).SID()

	// echo service on every server connection
	ctx, cancel := context.WithCancel(context.Background())
	var svcWG sync.WaitGroup
	var curS atomic.Value // current server-side secured conn
	svcWG.Add(1)
	go func() {
		defer svcWG.Done()
		for {
			select {
			case <-ctx.Done():
				return
			case conn := <-m.SConns:
				svcWG.Add(1)
				go func(conn net.Conn) {
					defer svcWG.Done()
					defer conn.Close()
					buf := make([]byte, 4096)
					for {
						n, err := conn.Read(buf)
						if err != nil {
							return
						}
						if _, err := conn.Write(append([]byte("echo:"), buf[:n]...)); err != nil {
							return
						}
						// this is the connection the client is talking to
						curS.Store(&conn)
					}
				}(conn)
			}
		}
	}()
	m.StartServer()
	if outdated {
		// An out-of-date client (version 0 only) that knows the passphrase
		// tries first: the listener rejects it on the version byte of act
		// one, i.e. after reading a single byte of the message. The next,
		// up-to-date client must not be affected by that.
		old := eng.NewMboxParty(eng.NewKey(rng), nil, pass, nil, 0, 0)
		octx, ocancel := context.WithTimeout(context.Background(), 40*time.Second)
		if oc, err := mailbox.NewClient(octx, "relay.test:443", old.CD, mailbox.VerifWithHashMailClient(relay)); err == nil {
			if conn, err := oc.Dial(octx, ""); err == nil {
				if _, _, err := old.Noise.ClientHandshake(octx, "", conn); err == nil {
					bad("outdated-client-admitted", "a version-0-only client completed a handshake with a listener whose minimum version is 1")
				}
				_ = conn.Close()
			}
		}
		ocancel()
	}
	m.StartClient()

	var cur net.Conn // current client-side secured conn
	reqNo := 0
	// echo tries the current connection, and fresh ones as the dialer hands
	// them out, until an echo succeeds.
	echo := func(step string) bool {
		deadline := time.Now().Add(patience)
		for time.Now().Before(deadline) {
			if cur == nil {
				select {
				case cur = <-m.CConns:
					res.conns++
				case <-time.After(time.Until(deadline)):
					continue
				}
			}
			reqNo++
			req := []byte(fmt.Sprintf("req-%d-%x", reqNo, rng.Int63()))
			_ = cur.SetReadDeadline(time.Now().Add(12 * time.Second))
			ok := false
			if _, err := cur.Write(req); err == nil {
				buf := make([]byte, 4096)
				if n, err := cur.Read(buf); err == nil && bytes.Equal(buf[:n], append([]byte("echo:"), req...)) {
					ok = true
				} else if err == nil {
					bad("echo-corrupt", fmt.Sprintf("step %s: echo returned %q for request %q", step, buf[:n], req))
					return false
				}
			}
			if ok {
				res.echoes++
				return true
			}
			_ = cur.Close()
			cur = nil
			res.reconnects++
		}
		res.stuck = fmt.Sprintf("step %q: no working connection within %v (connections handed out so far %d; dials %d, accepts %d)", step, patience, res.conns, m.Dials.Load(), m.Accepts.Load())
		res.desync = cl.CD.RemoteKey() != nil && s.CD.RemoteKey() == nil
		res.stuckStep = strings.Fields(step)[0]
		return false
	}

	var script []string
	finish := func() *c11Result {
		cancel()
		if cur != nil {
			_ = cur.Close()
		}
		m.Stop()
		w := make(chan struct{})
		go func() { svcWG.Wait(); close(w) }()
		select {
		case <-w:
		case <-time.After(20 * time.Second):
		}
		if m.ServeEnded != "" {
			bad("listener-stopped-serving", m.ServeEnded)
		}
		for _, o := range m.Overlaps {
			bad("second-connection-while-first-open", o)
		}
		// one-slot lock model over the acquire/release history
		for _, side := range []string{"server", "client"} {
			var ops []porcupine.Operation
			for _, e := range m.EventsCopy() {
				if e.Side != side {
					continue
				}
				ops = append(ops, porcupine.Operation{ClientId: 0, Input: "acquire", Call: e.AcquireAt - 1, Output: e.N, Return: e.AcquireAt})
				rel := e.ReleaseAt
				if rel == 0 {
					rel = 1 << 40
				}
				// the release happened somewhere between the hand-out and
				// the moment its Done channel was seen closed
				ops = append(ops, porcupine.Operation{ClientId: 1 + e.N, Input: "release", Call: e.AcquireAt, Output: e.N, Return: rel})
			}
			model := porcupine.Model{
				Init: func() interface{} { return -1 },
				Step: func(st, in, out interface{}) (bool, interface{}) {
					holder := st.(int)
					if in.(string) == "acquire" {
						return holder == -1, out.(int)
					}
					return holder == out.(int), -1
				},
			}
			if len(ops) > 0 && len(ops) <= 60 {
				if r, _ := porcupine.CheckOperationsVerbose(model, ops, 20*time.Second); r == porcupine.Illegal {
					bad("exclusivity-history", fmt.Sprintf("%s: the acquire/release history of %d connections is not a linearization of a one-slot lock", side, len(ops)/2))
				}
			}
		}
		res.script = strings.Join(script, ",")
		res.rep["script"] = res.script
		res.rep["events"] = fmt.Sprintf("%+v", m.EventsCopy())
		var rl []string
		for _, e := range relay.Log() {
			if e.Kind == "newbox" || e.Kind == "delbox" {
				rl = append(rl, fmt.Sprintf("%v %s %s %s", e.T.Round(time.Millisecond), e.Kind, e.Stream, e.Note))
			}
		}
		res.rep["relay_boxes"] = rl
		return res
	}

	// 1. first pairing
	if outdated {
		script = append(script, "outdated-client")
	}
	script = append(script, "pair")
	if !echo("pair (first connection)") {
		return finish()
	}
	sm, cm := s.Noise.VerifMachine(), cl.Noise.VerifMachine()
	if sm == nil || cm == nil || sm.VerifVersion() != 2 || cm.VerifVersion() != 2 {
		bad("pairing-version", "first pairing did not negotiate handshake version 2")
		return finish()
	}
	if !keyEq(s.CD.RemoteKey(), keyC.PubKey()) || !keyEq(cl.CD.RemoteKey(), keyS.PubKey()) {
		bad("pairing-keys", "after the first pairing the parties do not hold each other's static key")
		return finish()
	}
	res.paired = true
	if !bytes.Equal(cl.CD.AuthData(), auth) {
		bad("pairing-auth", "the client did not receive the server's auth payload in the first pairing")
	}

	// 2. scripted events
	steps := 2 + rng.Intn(3)
	for i := 0; i < steps && res.stuck == "" && len(res.safety) == 0; i++ {
		ev := []string{"close-by-client", "close-by-server", "relay-failure", "idle", "relay-restart", "close-by-server", "garbage-to-listener"}[rng.Intn(7)]
		script = append(script, ev)
		switch ev {
		case "close-by-client":
			if cur != nil {
				_ = cur.Close()
				cur = nil
				res.reconnects++
			}
		case "close-by-server":
			if p, ok := curS.Load().(*net.Conn); ok && p != nil {
				_ = (*p).Close()
				// The relay works, so the FIN reaches the client and
				// its pending read fails at once instead of hanging
				// until its keepalive gives up (7 s + 3 s).
				// (Not judged for the first close after the pairing: the
				// listener then deletes the passphrase mailboxes at once,
				// and a FIN still queued in them is legitimately lost.)
				if cur != nil && res.conns > 1 {
					t0 := time.Now()
					_ = cur.SetReadDeadline(time.Now().Add(9 * time.Second))
					_, rerr := cur.Read(make([]byte, 16))
					if el := time.Since(t0); rerr != nil && el > 5*time.Second {
						res.stuck = fmt.Sprintf("step %q: the server closed the connection over a working relay but the client's read only failed after %v (%v): the close was not signalled", ev, el.Round(time.Millisecond), rerr)
						res.stuckStep = "close-not-signalled"
					}
					_ = cur.Close()
					cur = nil
					res.reconnects++
				} else if cur != nil {
					_ = cur.Close()
					cur = nil
					res.reconnects++
				}
			}
		case "garbage-to-listener":
			// the client closes; while the listener waits for the next
			// SYN a malformed packet arrives in its mailbox: that
			// connection attempt fails inside Accept, and the listener
			// must go on accepting
			// (in half of the cases the dialer is in back-off meanwhile,
			// so that the malformed packet is the first thing the
			// listener's next handshake reads)
			hold := rng.Intn(2) == 0
			acc0 := m.Accepts.Load()
			if hold {
				m.HoldDials.Store(true)
			}
			if cur != nil {
				_ = cur.Close()
				cur = nil
				res.reconnects++
			}
			if hold {
				for w := 0; w < 300 && m.Accepts.Load() == acc0; w++ {
					time.Sleep(10 * time.Millisecond)
				}
				time.Sleep(50 * time.Millisecond)
			} else {
				time.Sleep(time.Duration(100+rng.Intn(400)) * time.Millisecond)
			}
			relay.Inject(sidHex(mailbox.GetSID(keySID, false)), []byte{0xEE})
			if hold {
				time.Sleep(200 * time.Millisecond)
				m.HoldDials.Store(false)
			}
		case "relay-restart":
			// the relay loses its in-memory mailboxes
			relay.Restart()
		case "relay-failure":
			failing.Store(true)
			time.Sleep(time.Duration(2000+rng.Intn(2000)) * time.Millisecond)
			failing.Store(false)
		case "idle":
			time.Sleep(time.Duration(rng.Intn(1500)) * time.Millisecond)
		}
		connsBefore := res.conns
		if !echo(ev + " (then echo)") {
			break
		}
		// whatever connection served this echo after the pairing must live
		// at the key-derived rendezvous and have used the key-based pattern
		if res.conns > connsBefore || i == 0 {
			evs := m.EventsCopy()
			var lastC, lastS *eng.ConnEvent
			for k := range evs {
				if evs[k].HSOK && evs[k].Side == "client" {
					lastC = &evs[k]
				}
				if evs[k].HSOK && evs[k].Side == "server" {
					lastS = &evs[k]
				}
			}
			if lastC != nil && lastS != nil && (lastC.N > 0 || lastS.N > 0) && res.conns > 1 {
				wantC2S, wantS2C := sidHex(mailbox.GetSID(keySID, false)), sidHex(mailbox.GetSID(keySID, true))
				if !strings.Contains(lastC.Local, wantC2S) || !strings.Contains(lastC.Remote, wantS2C) {
					bad("client-rendezvous", fmt.Sprintf("after pairing the client's connection #%d uses streams %.40s.. / %.40s.., not the key-derived ones", lastC.N, lastC.Local, lastC.Remote))
				}
				if !strings.Contains(lastS.Local, wantS2C) || !strings.Contains(lastS.Remote, wantC2S) {
					bad("server-rendezvous", fmt.Sprintf("after pairing the server's connection #%d uses streams %.40s.. / %.40s.., not the key-derived ones", lastS.N, lastS.Local, lastS.Remote))
				}
				if s.CD.HandshakePattern().Name != mailbox.KK || cl.CD.HandshakePattern().Name != mailbox.KK {
					bad("pattern", "after pairing a party would still use the passphrase pattern")
				}
			}
		}
	}
	if res.stuck != "" || len(res.safety) > 0 {
		return finish()
	}

	// 3. the intruder: only the passphrase
	if res.conns > 1 {
		script = append(script, "intruder")
		ip := eng.NewMboxParty(eng.NewKey(rng), nil, pass, nil, 0, 2)
		ictx, icancel := context.WithTimeout(context.Background(), 14*time.Second)
		ic, err := mailbox.NewClient(ictx, "relay.test:443", ip.CD, mailbox.VerifWithHashMailClient(relay))
		admitted := make(chan string, 1)
		if err == nil {
			go func() {
				for ictx.Err() == nil {
					conn, err := ic.Dial(ictx, "")
					if err != nil {
						select {
						case <-time.After(200 * time.Millisecond):
						case <-ictx.Done():
						}
						continue
					}
					_, _, err = ip.Noise.ClientHandshake(ictx, "", conn)
					if err == nil {
						admitted <- "handshake completed"
						return
					}
					_ = conn.Close()
				}
			}()
		}
		select {
		case what := <-admitted:
			bad("intruder-admitted", "a client presenting only the original passphrase after pairing: "+what)
		case <-ictx.Done():
		}
		icancel()
		if len(ip.AuthCB) > 0 || ip.CD.AuthData() != nil {
			bad("intruder-got-auth", "the passphrase-only client received the auth payload after pairing")
		}
		// the passphrase boxes must be gone (unless the relay refused their
		// deletion: the property asks that a passphrase-only client is not
		// admitted, which is judged above, not that a refused RPC succeeds)
		for _, b := range relay.Boxes() {
			if res.delFaults > 0 {
				break
			}
			if b == sidHex(mailbox.GetSID(passSID, true)) || b == sidHex(mailbox.GetSID(passSID, false)) {
				bad("passphrase-box-left", "after pairing and reconnecting the passphrase-derived mailbox still exists at the relay")
			}
		}
		// and the legitimate client still works
		echo("after-intruder")
	}
	_ = io.EOF
	return finish()
}

// c11RawSession uses Server.Accept / Client.Dial without the noise layer: a
// message is only partially read before the connection is closed, and the next
// connection must start clean.
func c11RawSession(seed int64, patience time.Duration) *c11Result {
	rng := rand.New(rand.NewSource(seed))
	res := &c11Result{rep: map[string]any{"seed": fmt.Sprint(seed), "kind": "raw"}}
	relay := sim.NewRelay()
	relay.KeepMsg, relay.KeepLog = false, false
	pass := eng.Entropy(rng)
	scd := mailbox.NewConnData(eng.NewKey(rng), nil, pass, nil, nil, nil)
	ccd := mailbox.NewConnData(eng.NewKey(rng), nil, pass, nil, nil, nil)
	srv, err := mailbox.VerifNewServer("relay.test:443", scd, func(mailbox.ServerStatus) {}, relay)
	if err != nil {
		res.safety = append(res.safety, [2]string{"setup", err.Error()})
		return res
	}
	ctx, cancel := context.WithCancel(context.Background())
	defer cancel()
	cli, err := mailbox.NewClient(ctx, "relay.test:443", ccd, mailbox.VerifWithHashMailClient(relay))
	if err != nil {
		res.safety = append(res.safety, [2]string{"setup", err.Error()})
		return res
	}
	defer srv.Close()
	gens := 2 + rng.Intn(3)
	var script []string
	start := time.Now()
	attempt := 0
	for g := 0; g < gens; {
		if time.Since(start) > patience*time.Duration(gens) {
			res.stuck, res.stuckStep = fmt.Sprintf("generation %d: no working connection pair after %d attempts in %v", g, attempt, time.Since(start).Round(time.Second)), "raw"
			return res
		}
		attempt++
		type cr struct {
			c   net.Conn
			err error
		}
		sch, cch := make(chan cr, 1), make(chan cr, 1)
		go func() { c, err := srv.Accept(); sch <- cr{c, err} }()
		go func() { c, err := cli.Dial(ctx, ""); cch <- cr{c, err} }()
		var sc, cc net.Conn
		deadline := time.After(patience)
		failed := false
		for (sc == nil || cc == nil) && !failed {
			select {
			case r := <-sch:
				if r.err != nil {
					failed = true
					break
				}
				sc = r.c
			case r := <-cch:
				if r.err != nil {
					failed = true
					break
				}
				cc = r.c
			case <-deadline:
				res.stuck, res.stuckStep = fmt.Sprintf("generation %d: no connection pair within %v", g, patience), "raw"
				return res
			}
		}
		closeBoth := func() {
			if cc != nil {
				_ = cc.Close()
			}
			if sc != nil {
				_ = sc.Close()
			}
			// collect a constructor that is still running
			if cc == nil {
				go func() {
					if r := <-cch; r.c != nil {
						_ = r.c.Close()
					}
				}()
			}
			if sc == nil {
				go func() {
					if r := <-sch; r.c != nil {
						_ = r.c.Close()
					}
				}()
			}
		}
		if failed {
			closeBoth()
			time.Sleep(200 * time.Millisecond)
			continue
		}
		res.conns += 2
		// the writer and the partial reader alternate
		w, r := cc, sc
		if rng.Intn(2) == 0 {
			w, r = sc, cc
		}
		msg := []byte(fmt.Sprintf("generation-%d-attempt-%d-%x-", g, attempt, rng.Int63()))
		msg = append(msg, eng.StreamBytes('g', g*1000, 20+rng.Intn(200))...)
		take := 1 + rng.Intn(len(msg)-1)
		if g == gens-1 {
			take = len(msg)
		}
		go func() { _, _ = w.Write(msg) }()
		_ = r.SetReadDeadline(time.Now().Add(15 * time.Second))
		buf := make([]byte, take)
		n, err := io.ReadFull(r, buf)
		if n > 0 && !bytes.Equal(buf[:n], msg[:n]) {
			res.safety = append(res.safety, [2]string{"stale-bytes-on-fresh-connection",
				fmt.Sprintf("connection generation %d (attempt %d) delivered %q.. although the peer wrote %q.. on it: bytes of an earlier connection were handed to the reader of a fresh one", g, attempt, trunc(buf[:n]), trunc(msg))})
			closeBoth()
			break
		}
		closeBoth()
		if err != nil {
			// a connection that is dead on arrival is normal (the stack
			// relies on re-dialling): try this generation again
			res.reconnects++
			continue
		}
		script = append(script, fmt.Sprintf("gen%d:read %d of %d", g, take, len(msg)))
		res.echoes++
		if g > 0 {
			res.reconnects++
		}
		g++
	}
	res.paired = true
	res.script = "raw:" + strings.Join(script, ",")
	res.rep["script"] = res.script
	return res
}

// c11LateActThree holds back the client's act three (and its retransmissions)
// for longer than the server's 5 s handshake read timeout.
func c11LateActThree(c *mon.Case, seed int64) {
	rng := rand.New(rand.NewSource(seed))
	pass := eng.Entropy(rng)
	relay := sim.NewRelay()
	relay.KeepMsg = false
	s := eng.NewMboxParty(eng.NewKey(rng), nil, pass, []byte("auth"), 0, 2)
	cl := eng.NewMboxParty(eng.NewKey(rng), nil, pass, nil, 0, 2)
	c2s := sidHex(mailbox.GetSID(func() [64]byte { x, _ := cl.CD.SID(); return x }(), false))
	t0 := time.Now()
	relay.Fault = func(op sim.RelayOp) sim.RelayAction {
		// act three: 1 version byte + 49 (encrypted static key) + 16 = 66
		// bytes, framed as MsgData (5) inside a GBN DATA packet (4)
		if op.Kind == "send" && op.Stream == c2s && op.Len == 75 && time.Since(t0) < 25*time.Second {
			return sim.RelayAction{Delay: 6500 * time.Millisecond}
		}
		return sim.RelayAction{}
	}
	m, err := eng.NewMboxSession(relay, s, cl)
	if err != nil {
		c.Shard.Inconc("late-act-three session: " + err.Error())
		return
	}
	m.StartServer()
	m.StartClient()
	// give the two sides 22 s to meet and complete a handshake on both ends
	deadline := time.After(22 * time.Second)
	var sc, cc net.Conn
	for sc == nil {
		select {
		case x := <-m.SConns:
			sc = x
		case x := <-m.CConns:
			if cc != nil {
				_ = cc.Close()
			}
			cc = x
		case <-deadline:
			goto out
		}
	}
out:
	rep := map[string]any{"kind": "late-act-three", "seed": fmt.Sprint(seed), "events": fmt.Sprintf("%+v", m.EventsCopy())}
	if sc == nil && cl.CD.RemoteKey() != nil && s.CD.RemoteKey() == nil {
		c.Shard.Violate("pairing-desync", "act three of the first pairing was delivered 6.5 s late (after the server's 5 s handshake read timeout): the client completed, stored the server's key and now dials the key-derived rendezvous; the server did not complete and stays on the passphrase rendezvous; after 22 s no connection has been established on the server side and none ever will", rep)
	}
	if sc != nil {
		_ = sc.Close()
	}
	if cc != nil {
		_ = cc.Close()
	}
	m.Stop()
	c.Shard.Count("late_act_three_sessions", 1)
	c.Shard.Eval("late-act-three")
}

// TestC11Debug runs one scripted session by seed (C11_ONLY_SEED), C11_REPEAT
// times, and prints what got stuck, with the tail of the relay log. A
// debugging aid, not a registered check.
func TestC11Debug(t *testing.T) {
	s := getenv("C11_ONLY_SEED")
	if s == "" {
		t.Skip("C11_ONLY_SEED not set")
	}
	var seed int64
	fmt.Sscan(s, &seed)
	n := 1
	if r := getenv("C11_REPEAT"); r != "" {
		fmt.Sscan(r, &n)
	}
	var wg sync.WaitGroup
	for i := 0; i < n; i++ {
		wg.Add(1)
		go func() {
			defer wg.Done()
			r := c11Session(seed, 60*time.Second)
			fmt.Printf("stuck=%q step=%s safety=%v script=%s\n", r.stuck, r.stuckStep, r.safety, r.script)
			if r.stuck != "" {
				fmt.Printf("  detail: %v\n", r.rep["relay_log_tail"])
			}
		}()
	}
	wg.Wait()
}
