package checks

import (
	"context"
	"errors"
	"fmt"
	"github.com/lightninglabs/lightning-node-connect/mailbox"
	"math/rand"
	"net"
	"sync"
	"sync/atomic"
	"testing"
	"testing/synctest"
	"time"

	"verifharness/eng"
	"verifharness/mon"
	"verifharness/sim"

	"github.com/btcsuite/btclog/v2"
	"github.com/lightninglabs/lightning-node-connect/gbn"
)

func TestC12(t *testing.T) {
	mon.Main(t, mon.Check{
		ID:    "C12",
		Level: "exploration",
		Rule:  "each case draws a GBN scenario (random N, timeouts, keepalive, latency, mild faults, bidirectional traffic with idle gaps), runs it once to collect the virtual instants of its wire events (if that run's bubble freezes, the scenario is repeated on the real clock with a Close by both ends after the fault phase), then re-runs it K times injecting Close at one of those instants (-1ns/0/+1ns) or at a random instant, by client / server / both at the same instant / twice concurrently, with the transport working / blackholed / its send blocking until cancellation; plus handshake-phase cancellation cases, a real-time slice with a transport whose send blocks (until the context of the call ends or, with keepalive on, like a stream write of the mailbox transports, until the connection's context ends), a real-time slice that closes a mailbox-level connection whose transport write is blocked by backpressure (relay mailboxes of four messages, peer dead, either during an upload or right after the mailbox was filled exactly so that the FIN is the only blocked write; bound ping+pong+6 s), and a real-time slice that runs a scripted mailbox-level session (closes by either side, relay failures, Server.Close) and then takes the goroutine census of the process. Oracles: Close returns within finSendTimeout+2s of virtual time (it must not wait for resend or sync timers); later Send/Recv fail at once; FIN on the wire when the transport works; peer closes itself when the FIN is delivered; every blocked caller returns; the closed endpoint puts nothing but its FIN on the wire afterwards; no goroutine of gbn alive in the bubble afterwards. (S) self-close, virtual time: keepalive on one side only; a one-way outage (nothing reaches the keepalive side, what it sends arrives) or one transient write error or one transient read error (the sending direction works) makes the connection close itself while the peer is blocked in Recv: the peer's Recv must fail within 10 s (a FIN must have been sent over the working transport). The in-memory links refuse a write whose context is done, as the mailbox transports do. (M) mailbox client connections set up against a relay that refuses the receive stream, the send stream or both, cancelled through their context: the constructor returns within 20 s and nothing panics afterwards. On the blocking transport half of the client closes are followed 50-350 ms later by a second Close: when that returns a packet is put on the link and the connection's receive loop must not take it. Non-trivial = a Close was injected while the connection was open; distinct = (closer, transport condition, phase bucket, what the send loop was doing).",
		Assumptions: []string{
			"goroutine census covers goroutines, not bare time.Ticker objects without a goroutine",
			"virtual time (synctest): bounds are exact, schedules sampled",
		},
		NCases: func(tier string) int {
			if tier == "thorough" {
				return 12000
			}
			return 960
		},
		MinEvals: 50,
		Run:      runC12,
		Finish: func(sh *mon.Shard) {
			if c12Frozen.Load() {
				mon.FlushAndExit(sh)
			}
		},
	})
}

type closeVariant struct {
	At        time.Duration
	Who       string // "C", "S", "both", "C2" (twice concurrently), "S2"
	Transport string // "ok", "blackhole", "blocksend"
}

func runC12(c *mon.Case) {
	if c.Idx%8 == 7 {
		runC12Handshake(c)
		return
	}
	if c.Idx%16 == 6 {
		runC12BlockSend(c)
		return
	}
	if c.Idx%16 == 14 {
		runC12SelfClose(c)
		return
	}
	if c.Idx%60 == 29 {
		runC12MailboxCancel(c)
		return
	}
	if c.Idx%240 == 101 {
		runC12MailboxBackpressure(c)
		return
	}
	if c.Idx%60 == 59 {
		runC12Mailbox(c)
		return
	}
	rng := c.Rng
	n := eng.PickN(c.Tier, c.Idx)
	conf := eng.RandConf(rng, n)
	cnt := 2*int(n) + 6
	if cnt > 80 {
		cnt = 80
	}
	mk := func() *eng.Scen {
		r := rand.New(rand.NewSource(c.Seed))
		sc := &eng.Scen{Conf: conf, Horizon: 10 * time.Minute}
		sc.SizesA = eng.RandSizes(r, cnt, false)
		sc.SizesB = eng.RandSizes(r, cnt, false)
		sc.GapsA = eng.RandGaps(r, cnt, 3*time.Second)
		sc.GapsB = eng.RandGaps(r, cnt, 3*time.Second)
		// slow or stalled consumers: the application stops calling Recv,
		// so the N-slot receive buffer fills up behind it
		switch r.Intn(4) {
		case 0:
			sc.RecvGapsA = eng.RandGaps(r, cnt, 8*time.Second)
			sc.RecvGapsB = eng.RandGaps(r, cnt, 8*time.Second)
		case 1:
			sc.RecvGapsA = make([]time.Duration, cnt)
			sc.RecvGapsB = make([]time.Duration, cnt)
			sc.RecvGapsA[r.Intn(cnt)] = time.Hour
			sc.RecvGapsB[r.Intn(cnt)] = time.Hour
		}
		sc.FaultC2S = eng.FaultSpec{Drop: 0.1, Dup: 0.05, Until: 30 * time.Second, Seed: r.Int63()}
		sc.FaultS2C = eng.FaultSpec{Drop: 0.1, Dup: 0.05, Until: 30 * time.Second, Seed: r.Int63()}
		if r.Intn(3) == 0 {
			sc.FaultC2S, sc.FaultS2C = eng.FaultSpec{}, eng.FaultSpec{}
		}
		return sc
	}
	base := mk()
	br, frozen := eng.RunScenGuarded(c.T, base, eng.Hooks{OnLeak: leakHook(c, base)}, 60*time.Second)
	if frozen {
		// Without any Close the bubble's clock stopped: a goroutine of the
		// connection waits on a mutex that nothing releases. Whether Close
		// still returns in that state is exactly this property, so the
		// scenario is repeated on the real clock with a Close by both ends
		// after the fault phase.
		c12Frozen.Store(true)
		c.Shard.Count("virtual_time_freezes", 1)
		runC12VariantIn(c, mk(), closeVariant{At: 35 * time.Second, Who: "both", Transport: "ok"}, false)
		return
	}
	if br.ConnErrC != nil || br.ConnErrS != nil {
		c.Shard.Violate("handshake-failed-clean-link", fmt.Sprintf("client=%v server=%v", br.ConnErrC, br.ConnErrS), scenReplay(base, br))
		return
	}
	var times []time.Duration
	for _, lg := range [][]sim.WireEvent{br.LogC2S, br.LogS2C} {
		for _, e := range lg {
			if e.T > br.FaultStart {
				times = append(times, e.T)
			}
		}
	}
	if len(times) == 0 {
		times = []time.Duration{br.FaultStart + time.Millisecond}
	}
	k := 6
	whos := []string{"C", "S", "both", "C2", "S2"}
	// NOTE: a transport whose send blocks until cancellation cannot be run
	// in virtual time: Close then waits finSendTimeout inside sync.Once while
	// the connection's own loops wait on that Once's mutex, and a goroutine
	// waiting on a mutex keeps the bubble's clock from advancing. Those
	// cases run on the real clock in runC12BlockSend.
	trs := []string{"ok", "ok", "ok", "blackhole"}
	for v := 0; v < k; v++ {
		cv := closeVariant{Who: whos[rng.Intn(len(whos))], Transport: trs[rng.Intn(len(trs))]}
		if rng.Intn(5) == 0 {
			cv.At = br.FaultStart + time.Duration(rng.Int63n(int64(br.Elapsed-br.FaultStart)+1))
		} else {
			cv.At = times[rng.Intn(len(times))] + time.Duration(rng.Intn(3)-1)
		}
		runC12Variant(c, mk(), cv)
	}
}

// c12Frozen is set when a virtual-time scenario of this worker froze; the worker
// then ends through FlushAndExit because the frozen bubble cannot be torn down.
var c12Frozen atomic.Bool

// runC12Variant runs the variant in virtual time. If the bubble does not finish
// within 40 s of real time it is frozen: some goroutine waits on a mutex (e.g.
// sync.Once inside Close) whose holder needs the clock to advance, which a
// bubble cannot provide. That is not a verdict by itself, so the same variant
// is run again on the real clock and judged there.
func runC12Variant(c *mon.Case, sc *eng.Scen, cv closeVariant) {
	done := make(chan struct{})
	go func() {
		defer close(done)
		runC12VariantIn(c, sc, cv, true)
	}()
	select {
	case <-done:
		return
	case <-time.After(40 * time.Second):
	}
	c12Frozen.Store(true)
	c.Shard.Count("virtual_time_freezes", 1)
	if cv.At > 30*time.Second {
		c.Shard.Inconc(fmt.Sprintf("case %d: bubble froze for a Close at %v; too late in the scenario to repeat in real time", c.Idx, cv.At))
		return
	}
	runC12VariantIn(c, sc, cv, false)
}

func runC12VariantIn(c *mon.Case, sc *eng.Scen, cv closeVariant, virtual bool) {
	settle := synctest.Wait
	hang := time.Hour
	if !virtual {
		settle = func() { time.Sleep(200 * time.Millisecond) }
		hang = 45 * time.Second
	}
	type closeObs struct {
		who      string
		took     time.Duration
		start    time.Duration
		wasOpen  bool
		rt       time.Duration
		finBound time.Duration
	}
	var (
		mu       sync.Mutex
		obs      []closeObs
		injected bool
		phase    string
	)
	rep := func(r *eng.ScenResult) map[string]any {
		m := scenReplay(sc, r)
		m["close"] = fmt.Sprintf("%+v", cv)
		return m
	}
	during := func(ctx context.Context, p *eng.Pair, a, b *eng.FlowResult) {
		d := cv.At - time.Since(p.T0)
		if d > 0 {
			select {
			case <-time.After(d):
			case <-ctx.Done():
				return
			}
		}
		var targets []*gbn.GoBackNConn
		var names []string
		switch cv.Who {
		case "C":
			targets, names = []*gbn.GoBackNConn{p.C}, []string{"C"}
		case "S":
			targets, names = []*gbn.GoBackNConn{p.S}, []string{"S"}
		case "both":
			targets, names = []*gbn.GoBackNConn{p.C, p.S}, []string{"C", "S"}
		case "C2":
			targets, names = []*gbn.GoBackNConn{p.C, p.C}, []string{"C", "C"}
		case "S2":
			targets, names = []*gbn.GoBackNConn{p.S, p.S}, []string{"S", "S"}
		}
		switch cv.Transport {
		case "blackhole":
			p.C2S.SetBlackhole(true, true)
			p.S2C.SetBlackhole(true, true)
		case "blocksend":
			if names[0] == "C" {
				p.C2S.SetBlockSend(true)
			} else {
				p.S2C.SetBlockSend(true)
			}
			if cv.Who == "both" {
				p.C2S.SetBlockSend(true)
				p.S2C.SetBlockSend(true)
			}
		}
		st := p.C.VerifState()
		full := st.Size >= st.N
		_, delA, _ := a.Snapshot()
		_, delB, _ := b.Snapshot()
		mu.Lock()
		injected = true
		phase = fmt.Sprintf("cfull=%v,deliv=%d", full, bucket(delA+delB))
		mu.Unlock()

		var wg sync.WaitGroup
		for i, g := range targets {
			wg.Add(1)
			go func(i int, g *gbn.GoBackNConn) {
				defer wg.Done()
				open := true
				select {
				case <-g.VerifDone():
					open = false
				default:
				}
				rt := g.VerifState().ResendTimeout
				t0 := time.Now()
				_ = g.Close()
				o := closeObs{who: names[i], took: time.Since(t0), start: t0.Sub(p.T0), wasOpen: open, rt: rt}
				mu.Lock()
				obs = append(obs, o)
				mu.Unlock()
			}(i, g)
		}
		closed := make(chan struct{})
		go func() { wg.Wait(); close(closed) }()
		select {
		case <-closed:
		case <-time.After(hang):
			c.Shard.Violate("close-hangs",
				fmt.Sprintf("Close (%+v) had not returned after %v (virtual clock: %v)", cv, hang, virtual), rep(nil))
			mon.FlushAndExit(c.Shard)
		}
		// No application goroutine may still be inside a call on a closed
		// endpoint once the bubble has settled. Flow a: sender on C,
		// receiver on S; flow b: sender on S, receiver on C.
		time.Sleep(time.Millisecond)
		settle()
		for _, nm := range names {
			is, ir := a.InSend.Load(), b.InRecv.Load()
			if nm == "S" {
				is, ir = b.InSend.Load(), a.InRecv.Load()
			}
			if is || ir {
				c.Shard.Violate("blocked-caller-not-woken",
					fmt.Sprintf("Close on %s has returned and the bubble has settled, but an application goroutine is still inside Send=%v / Recv=%v on that endpoint", nm, is, ir), rep(nil))
			}
		}
		// A further Close must be a no-op that returns at once.
		for i, g := range targets {
			t0 := time.Now()
			_ = g.Close()
			if el := time.Since(t0); el > 0 && virtual || el > time.Second {
				c.Shard.Violate("reclose-slow", fmt.Sprintf("repeated Close on %s took %v (virtual clock: %v)", names[i], el, virtual), rep(nil))
			}
			// Later calls must fail at once.
			t0 = time.Now()
			if err := g.Send([]byte("x")); err == nil {
				c.Shard.Violate("send-after-close-ok", fmt.Sprintf("Send on %s returned nil after Close returned", names[i]), rep(nil))
			}
			if _, err := g.Recv(); err == nil {
				// Recv may legitimately drain a buffered message only if it does not block; it must not succeed after close.
				c.Shard.Violate("recv-after-close-ok", fmt.Sprintf("Recv on %s returned data after Close returned", names[i]), rep(nil))
			}
			if el := time.Since(t0); el > 0 && virtual || el > time.Second {
				c.Shard.Violate("call-after-close-blocks", fmt.Sprintf("Send/Recv after Close on %s took %v (virtual clock: %v)", names[i], el, virtual), rep(nil))
			}
		}
	}

	var r *eng.ScenResult
	if virtual {
		r = eng.RunScen(c.T, sc, eng.Hooks{During: during, WaitDuring: true, OnLeak: leakHook(c, sc)})
	} else {
		sc.Horizon = cv.At + 40*time.Second
		r = eng.RunScenRealTime(sc, eng.Hooks{During: during, WaitDuring: true})
	}
	if r.ConnErrC != nil || r.ConnErrS != nil {
		return
	}
	mu.Lock()
	defer mu.Unlock()
	if !injected {
		c.Shard.Eval("")
		return
	}
	anyOpen := false
	for _, o := range obs {
		// With a transport that does not block, nothing in Close waits for
		// a timer: the quit channels wake every loop. The only legitimate
		// wait is the FIN write (finSendTimeout, 1 s) on a blocking transport.
		bound := time.Second + 2*time.Second
		if !virtual {
			bound += 2 * time.Second // scheduling slack on the real clock
		}
		if o.took > bound {
			c.Shard.Violate("close-slow",
				fmt.Sprintf("Close on %s at %v took %v (virtual clock: %v; bound %v, resend timeout %v)", o.who, o.start, o.took, virtual, bound, o.rt), rep(r))
		}
		c.Shard.Max("max_close_virtual_ms", o.took.Milliseconds())
		if o.wasOpen {
			anyOpen = true
		}
	}
	// FIN and peer reaction (only judged for a working transport and a
	// single closer).
	if cv.Transport == "ok" && (cv.Who == "C" || cv.Who == "S" || cv.Who == "C2" || cv.Who == "S2") && len(obs) > 0 && obs[0].wasOpen {
		out, peerDone := r.LogC2S, r.DoneS
		if obs[0].who == "S" {
			out, peerDone = r.LogS2C, r.DoneC
		}
		var finSent, finDropped bool
		var finDelivered time.Duration = -1
		for _, e := range out {
			if e.P.Type != sim.TFin || e.T < obs[0].start {
				continue
			}
			switch e.Kind {
			case "send":
				finSent = true
			case "drop":
				finDropped = true
			case "deliver":
				finDelivered = e.T
			}
		}
		peerClosedFirst := peerDone >= 0 && peerDone <= obs[0].start
		if !finSent && !finDropped && !peerClosedFirst {
			c.Shard.Violate("no-fin",
				fmt.Sprintf("%s closed at %v over a working transport but no FIN was put on the wire", obs[0].who, obs[0].start), rep(r))
		}
		if finSent {
			c.Shard.Count("fin_seen", 1)
		}
		if finDelivered >= 0 {
			c.Shard.Count("fin_delivered", 1)
			if peerDone < 0 {
				c.Shard.Violate("peer-ignores-fin",
					fmt.Sprintf("FIN from %s was delivered at %v but the peer never closed itself", obs[0].who, finDelivered), rep(r))
			} else if peerDone > finDelivered+time.Second {
				c.Shard.Violate("peer-slow-after-fin",
					fmt.Sprintf("FIN delivered at %v, peer closed only at %v", finDelivered, peerDone), rep(r))
			}
		}
	}
	// Nothing but the FIN may leave an endpoint once its Close has returned.
	for _, o := range obs {
		out := r.LogC2S
		if o.who == "S" {
			out = r.LogS2C
		}
		for _, e := range out {
			if e.Kind != "deliver" && e.T > o.start+o.took && e.P.Type != sim.TFin {
				c.Shard.Violate("activity-after-close",
					fmt.Sprintf("%s put %s on the wire at %v although its Close had returned at %v", o.who, e.P.String(), e.T, o.start+o.took), rep(r))
				break
			}
		}
	}
	if anyOpen {
		c.Shard.Eval(fmt.Sprintf("%s|%s|%s", cv.Who, cv.Transport, phase))
	} else {
		c.Shard.Eval("")
	}
	if c.Idx%40 == 0 {
		c.Shard.Sample(rep(r))
	}
}

func bucket(n int) int {
	switch {
	case n == 0:
		return 0
	case n < 5:
		return 1
	case n < 20:
		return 2
	case n < 60:
		return 3
	}
	return 4
}

// runC12Handshake cancels the constructor's context while the handshake is
// still in progress (the only handle that exists before a conn is returned).
func runC12Handshake(c *mon.Case) {
	rng := c.Rng
	n := eng.PickN(c.Tier, c.Idx)
	conf := eng.RandConf(rng, n)
	for v := 0; v < 6; v++ {
		side := []string{"client", "server", "both"}[rng.Intn(3)]
		peer := []string{"absent", "blackholed", "slow"}[rng.Intn(3)]
		at := time.Duration(rng.Int63n(int64(6 * time.Second)))
		if rng.Intn(3) == 0 {
			// exactly at a handshake timeout boundary
			hs := conf.HSTimeout
			if hs == 0 {
				hs = time.Second
			}
			at = hs*time.Duration(1+rng.Intn(3)) + time.Duration(rng.Intn(3)-1)
		}
		key := fmt.Sprintf("hs|%s|%s", side, peer)
		synctest.Test(c.T, func(t *testing.T) {
			p := eng.NewPair(conf)
			switch peer {
			case "blackholed":
				p.C2S.SetBlackhole(true, false)
				p.S2C.SetBlackhole(true, false)
			case "slow":
				p.C2S.SetLatency(3 * time.Second)
				p.S2C.SetLatency(3 * time.Second)
			}
			ctxC, cancelC := context.WithCancel(context.Background())
			ctxS, cancelS := context.WithCancel(context.Background())
			defer cancelC()
			defer cancelS()
			t0 := time.Now()
			type ret struct {
				conn *gbn.GoBackNConn
				err  error
				at   time.Duration
			}
			chC, chS := make(chan ret, 1), make(chan ret, 1)
			startC := side != "server" || peer != "absent"
			startS := side != "client" || peer != "absent"
			if startC {
				go func() {
					g, err := gbn.NewClientConn(ctxC, conf.N, p.C2S.Send, p.S2C.Recv, conf.ClientOpts()...)
					chC <- ret{g, err, time.Since(t0)}
				}()
			}
			if startS {
				go func() {
					g, err := gbn.NewServerConn(ctxS, p.S2C.Send, p.C2S.Recv, conf.ServerOpts()...)
					chS <- ret{g, err, time.Since(t0)}
				}()
			}
			time.Sleep(at)
			if side != "server" {
				cancelC()
			}
			if side != "client" {
				cancelS()
			}
			cancelAt := time.Since(t0)
			// Whoever was cancelled must return promptly.
			check := func(name string, ch chan ret, cancelled bool) *gbn.GoBackNConn {
				if !cancelled {
					return nil
				}
				select {
				case r := <-ch:
					if r.at > cancelAt+3*time.Second && r.at > cancelAt {
						c.Shard.Violate("hs-cancel-slow", fmt.Sprintf("%s constructor returned %v after its context was cancelled", name, r.at-cancelAt), map[string]any{"conf": conf.String(), "peer": peer, "at": at.String()})
					}
					return r.conn
				case <-time.After(30 * time.Second):
					c.Shard.Violate("hs-cancel-hangs", fmt.Sprintf("%s constructor did not return within 30 virtual seconds of its context being cancelled at %v (peer %s)", name, cancelAt, peer), map[string]any{"conf": conf.String(), "peer": peer, "at": at.String()})
					return nil
				}
			}
			gc := check("client", chC, startC && side != "server")
			gs := check("server", chS, startS && side != "client")
			// Tear everything down.
			cancelC()
			cancelS()
			if gc != nil {
				_ = gc.Close()
			}
			if gs != nil {
				_ = gs.Close()
			}
			p.C2S.Close()
			p.S2C.Close()
			// Collect constructors that were not cancelled first.
			if startC && side == "server" {
				if r := <-chC; r.conn != nil {
					_ = r.conn.Close()
				}
			}
			if startS && side == "client" {
				if r := <-chS; r.conn != nil {
					_ = r.conn.Close()
				}
			}
			if lk := eng.Settle(); len(lk) > 0 {
				g := lk[0]
				c.Shard.Violate("leak|"+g.CreatedBy(),
					fmt.Sprintf("after cancelling the handshake (%s, peer %s, at %v): %d goroutine(s) still alive; first created by %s parked in %s", side, peer, at, len(lk), g.CreatedBy(), g.TopFrame()),
					map[string]any{"conf": conf.String(), "stack": g.Stack})
				mon.FlushAndExit(c.Shard)
			}
		})
		c.Shard.Eval(key)
		c.Shard.Count("handshake_cancels", 1)
	}
}

// runC12BlockSend closes a connection whose transport send blocks until its
// context is cancelled (real clock, see the note in runC12).
func runC12BlockSend(c *mon.Case) {
	rng := c.Rng
	conf := eng.GBNConf{N: eng.PickN(c.Tier, c.Idx/16)}
	if rng.Intn(2) == 0 {
		conf.PingC, conf.PongC, conf.PingS, conf.PongS = 700*time.Millisecond, 300*time.Millisecond, 500*time.Millisecond, 300*time.Millisecond
	}
	ctx, cancel := context.WithCancel(context.Background())
	defer cancel()
	p := eng.NewPair(conf)
	ce, se := p.Connect(ctx)
	if ce != nil || se != nil {
		c.Shard.Violate("handshake-failed-clean-link", fmt.Sprintf("client=%v server=%v", ce, se), nil)
		return
	}
	who := []string{"C", "S", "both"}[rng.Intn(3)]
	// Some traffic, some of it left unacknowledged.
	k := rng.Intn(int(conf.N) + 2)
	go func() {
		for i := 0; i < k; i++ {
			if p.C.Send(eng.MsgBytes('a', i, 10)) != nil {
				return
			}
		}
	}()
	go func() {
		for {
			if _, err := p.S.Recv(); err != nil {
				return
			}
		}
	}()
	time.Sleep(time.Duration(rng.Intn(30)) * time.Millisecond)
	// With keepalive on, half of the cases block like a stream write of the
	// mailbox transports does: the write ignores the context of the call (the
	// FIN's one-second timeout) and ends only with the connection's context.
	// Close is then bounded by the write watchdog (ping + pong time).
	if conf.PingC != 0 && c.Idx/16%2 == 0 {
		p.C2S.SetBlockConnScoped(true)
		p.S2C.SetBlockConnScoped(true)
		c.Shard.Count("blocking_transport_closes_conn_scoped", 1)
	}
	p.C2S.SetBlockSend(true)
	p.S2C.SetBlockSend(true)
	var wg sync.WaitGroup
	closeOne := func(name string, g *gbn.GoBackNConn) {
		defer wg.Done()
		t0 := time.Now()
		_ = g.Close()
		if el := time.Since(t0); el > 8*time.Second {
			c.Shard.Violate("close-slow-blocking-transport", fmt.Sprintf("Close on %s with a blocking transport took %v of real time (finSendTimeout is 1s)", name, el), map[string]any{"conf": conf.String()})
		} else {
			c.Shard.Max("max_close_blocking_real_ms", el.Milliseconds())
		}
	}
	if who != "S" {
		wg.Add(1)
		go closeOne("C", p.C)
		if rng.Intn(2) == 0 {
			// A second Close while the first is still busy with its FIN
			// (the transport blocks): whenever it returns, the connection
			// must be down - in particular its receive loop must not take
			// another packet from the transport.
			wg.Add(1)
			stagger := time.Duration(50+rng.Intn(300)) * time.Millisecond
			go func() {
				defer wg.Done()
				time.Sleep(stagger)
				_ = p.C.Close()
				_, _, _, d0 := p.S2C.Stats()
				p.S2C.Inject([]byte{sim.TAck, 0})
				time.Sleep(100 * time.Millisecond)
				if _, _, _, d1 := p.S2C.Stats(); d1 > d0 {
					c.Shard.Violate("close-returned-early", "a second Close call returned while the connection was still running: a packet that arrived after it had returned was taken from the transport by the connection's receive loop (the first Close was still waiting for its FIN write)", map[string]any{"conf": conf.String(), "who": who})
				}
				c.Shard.Count("staggered_second_closes", 1)
			}()
		}
	}
	if who != "C" {
		wg.Add(1)
		go closeOne("S", p.S)
	}
	done := make(chan struct{})
	go func() { wg.Wait(); close(done) }()
	select {
	case <-done:
	case <-time.After(60 * time.Second):
		c.Shard.Violate("close-hangs-blocking-transport", "Close did not return within 60s of real time with a transport whose send blocks until cancellation", map[string]any{"conf": conf.String(), "who": who})
		return
	}
	cancel()
	p.CloseAll()
	// Two censuses: a goroutine still parked in gbn code in both is leaked.
	var leaked []eng.Goroutine
	for i := 0; i < 50; i++ {
		time.Sleep(20 * time.Millisecond)
		leaked = eng.LeakedIn("lightning-node-connect/gbn")
		if len(leaked) == 0 {
			break
		}
	}
	if len(leaked) > 0 {
		time.Sleep(3 * time.Second)
		leaked = eng.LeakedIn("lightning-node-connect/gbn")
	}
	if len(leaked) > 0 {
		g := leaked[0]
		c.Shard.Violate("leak|"+g.CreatedBy(), fmt.Sprintf("%d goroutine(s) alive 4s after Close with a blocking transport; first created by %s in %s", len(leaked), g.CreatedBy(), g.TopFrame()), map[string]any{"stack": g.Stack})
	}
	c.Shard.Eval("blocksend|" + who)
	c.Shard.Count("blocking_transport_closes", 1)
}

// runC12Mailbox closes connections at the mailbox level (ClientConn.Close,
// ServerConn.Close/Stop through Server.Close, closes by either side, relay
// failures) by running one scripted session of the C11 engine on the real
// clock, and then takes the goroutine census of the whole worker process: once
// the session is stopped nothing may be left in gbn or mailbox code.
// runC12MailboxBackpressure: Close at the mailbox level while the transport's
// send is blocked. A paired mailbox session over a relay whose mailboxes hold
// four messages, one party uploading; the other party stops reading and
// sending; a moment later (before any keepalive can have fired) the uploader's
// application closes its connection. Close may have to wait for the blocked
// write (the stream's send mutex is held), and that write ends when the write
// watchdog of ping + pong time fires: bound ping + pong + 6 s. Afterwards Read
// and Write fail at once.
func runC12MailboxBackpressure(c *mon.Case) {
	rng := rand.New(rand.NewSource(c.Seed))
	pass := eng.Entropy(rng)
	relay := sim.NewRelay()
	relay.KeepMsg, relay.KeepLog = false, false
	relay.Cap = 4
	s := eng.NewMboxParty(eng.NewKey(rng), nil, pass, []byte("auth"), 0, 2)
	cl := eng.NewMboxParty(eng.NewKey(rng), nil, pass, nil, 0, 2)
	sid, _ := cl.CD.SID()
	c2s, s2c := sidHex(mailbox.GetSID(sid, false)), sidHex(mailbox.GetSID(sid, true))
	serverDies := rng.Intn(2) == 0
	var dead atomic.Bool
	relay.Fault = func(op sim.RelayOp) sim.RelayAction {
		if dead.Load() && op.Kind == "send" && ((serverDies && op.Stream == s2c) || (!serverDies && op.Stream == c2s)) {
			return sim.RelayAction{Drop: true}
		}
		return sim.RelayAction{}
	}
	m, err := eng.NewMboxSession(relay, s, cl)
	if err != nil {
		c.Shard.Inconc("mailbox backpressure session: " + err.Error())
		return
	}
	m.StartServer()
	m.StartClient()
	var sc, cc net.Conn
	deadline := time.After(60 * time.Second)
	for sc == nil || cc == nil {
		select {
		case sc = <-m.SConns:
		case cc = <-m.CConns:
		case <-deadline:
			c.Shard.Inconc("mailbox backpressure session: no paired connection within 60 s")
			m.Stop()
			return
		}
	}
	up, down := cc, sc
	if !serverDies {
		up, down = sc, cc
	}
	go func() {
		b := make([]byte, 65536)
		for {
			if _, err := down.Read(b); err != nil {
				return
			}
		}
	}()
	var inWrite atomic.Bool
	// Every other case: no upload in progress. The peer dies, the party then
	// writes just as many small messages as the peer's mailbox holds (every
	// write is accepted) and closes at once - the FIN is the first write that
	// the relay does not take, and the only one that is blocked.
	fillThenClose := c.Idx/240%2 == 1
	if fillThenClose {
		dead.Store(true)
		if serverDies {
			relay.FreezeReads(c2s, true)
		} else {
			relay.FreezeReads(s2c, true)
		}
		time.Sleep(100 * time.Millisecond)
		for i := 0; i < relay.Cap; i++ {
			inWrite.Store(true)
			_, err := up.Write(eng.StreamBytes('z', i*100, 100))
			inWrite.Store(false)
			if err != nil {
				break
			}
		}
	} else {
		go func() {
			for i := 0; i < 4000; i++ {
				inWrite.Store(true)
				_, err := up.Write(eng.StreamBytes('z', i*32768, 32768))
				inWrite.Store(false)
				if err != nil {
					return
				}
			}
		}()
		time.Sleep(time.Duration(500+rng.Intn(500)) * time.Millisecond)
		dead.Store(true)
		if serverDies {
			relay.FreezeReads(c2s, true)
		} else {
			relay.FreezeReads(s2c, true)
		}
		time.Sleep(time.Duration(500+rng.Intn(1500)) * time.Millisecond)
	}
	who := map[bool]string{true: "client", false: "server"}[serverDies]
	bound := 7*time.Second + 3*time.Second + 6*time.Second
	rep := map[string]any{"kind": "mailbox-backpressure", "fill_then_close": fillThenClose, "closer": who, "relay_capacity": relay.Cap, "bound": bound.String()}
	closed := make(chan struct{})
	t0 := time.Now()
	go func() { _ = up.Close(); close(closed) }()
	select {
	case <-closed:
		if fillThenClose {
			c.Shard.Max("max_close_mailbox_fill_then_close_ms", time.Since(t0).Milliseconds())
		} else {
			c.Shard.Max("max_close_mailbox_backpressure_ms", time.Since(t0).Milliseconds())
		}
	case <-time.After(bound):
		c.Shard.Violate("close-hangs|mailbox-backpressure",
			fmt.Sprintf("mailbox session over a relay that holds %d messages per mailbox, the %s uploading, its peer dead: Close of the %s's connection had not returned after %v", relay.Cap, who, who, bound), rep)
		mon.FlushAndExit(c.Shard)
	}
	time.Sleep(200 * time.Millisecond)
	if inWrite.Load() {
		c.Shard.Violate("blocked-caller-not-woken|mailbox-backpressure", "Close has returned but the application's Write on that connection is still blocked", rep)
	}
	t1 := time.Now()
	if _, err := up.Write([]byte("x")); err == nil {
		c.Shard.Violate("send-after-close-ok|mailbox", "Write returned nil after Close returned", rep)
	}
	if time.Since(t1) > 2*time.Second {
		c.Shard.Violate("call-after-close-blocks|mailbox", fmt.Sprintf("Write after Close took %v", time.Since(t1)), rep)
	}
	_ = down.Close()
	m.Stop()
	c.Shard.Count("mailbox_backpressure_closes", 1)
	c.Shard.Eval("MB|" + who)
}

func runC12Mailbox(c *mon.Case) {
	r := c11Session(c.Rng.Int63(), 90*time.Second)
	if c12Frozen.Load() {
		c.Shard.Inconc("census skipped: a frozen bubble of an earlier case left goroutines behind in this worker")
		return
	}
	var lk []eng.Goroutine
	for i := 0; i < 40; i++ {
		time.Sleep(500 * time.Millisecond)
		if lk = eng.LeakedIn("lightning-node-connect/gbn", "lightning-node-connect/mailbox"); len(lk) == 0 {
			break
		}
	}
	if len(lk) > 0 {
		time.Sleep(5 * time.Second)
		lk = eng.LeakedIn("lightning-node-connect/gbn", "lightning-node-connect/mailbox")
	}
	if len(lk) > 0 {
		g := lk[0]
		c.Shard.Violate("leak|mailbox|"+g.CreatedBy(),
			fmt.Sprintf("25 s after a mailbox session (%v) was stopped, %d goroutine(s) are still parked in gbn/mailbox code; first created by %s in %s", r.rep["script"], len(lk), g.CreatedBy(), g.TopFrame()),
			map[string]any{"script": r.rep["script"], "stack": g.Stack})
	}
	c.Shard.Count("mailbox_sessions_censused", 1)
	c.Shard.Eval(fmt.Sprintf("M|%v", r.rep["script"]))
}

// runC12SelfClose: the connection closes itself - its keepalive gives up because
// nothing arrives any more (a one-way outage: what it sends still reaches the
// peer), or one write of its transport fails with a transient error - while the
// peer, which has no keepalive of its own, is blocked in Recv. The transport
// towards the peer works, so the peer must be told by a FIN and its Recv must
// fail instead of hanging. Virtual time.
func runC12SelfClose(c *mon.Case) {
	rng := rand.New(rand.NewSource(c.Seed))
	kaClient := rng.Intn(2) == 0
	pp := [][2]time.Duration{{5 * time.Second, 3 * time.Second}, {7 * time.Second, 3 * time.Second}, {time.Second, time.Second}, {300 * time.Millisecond, 200 * time.Millisecond}}[rng.Intn(4)]
	conf := eng.GBNConf{N: []uint8{1, 2, 5, 20, 100}[rng.Intn(5)], Lat: time.Duration(rng.Intn(40)) * time.Millisecond}
	if rng.Intn(2) == 0 {
		conf.Static, conf.Resend = true, []time.Duration{200 * time.Millisecond, time.Second, 3 * time.Second}[rng.Intn(3)]
	}
	if kaClient {
		conf.PingC, conf.PongC = pp[0], pp[1]
	} else {
		conf.PingS, conf.PongS = pp[0], pp[1]
	}
	cause := []string{"one-way-outage", "write-error", "read-error"}[rng.Intn(3)]
	backlog := rng.Intn(3)
	wait := time.Duration(rng.Int63n(int64(2*pp[0]) + 1))
	rep := map[string]any{"kind": "self-close", "conf": conf.String(), "cause": cause, "keepalive_side": map[bool]string{true: "client", false: "server"}[kaClient], "messages_queued_at_the_fault": backlog}
	synctest.Test(c.T, func(t *testing.T) {
		ctx, cancel := context.WithCancel(context.Background())
		defer cancel()
		p := eng.NewPair(conf)
		ce, se := p.Connect(ctx)
		if ce != nil || se != nil {
			c.Shard.Violate("handshake-failed-clean-link", fmt.Sprintf("client=%v server=%v", ce, se), rep)
			p.CloseAll()
			return
		}
		ka, other := p.C, p.S
		kaOut, kaIn := p.C2S, p.S2C
		if !kaClient {
			ka, other = p.S, p.C
			kaOut, kaIn = p.S2C, p.C2S
		}
		// the peer sits in Recv
		recvErr := make(chan error, 1)
		go func() {
			for {
				if _, err := other.Recv(); err != nil {
					recvErr <- err
					return
				}
			}
		}()
		for i := 0; i < 3; i++ {
			if err := ka.Send(eng.MsgBytes('a', i, 30)); err != nil {
				c.Shard.Inconc("self-close: warm-up send failed: " + err.Error())
				p.CloseAll()
				return
			}
		}
		time.Sleep(4*conf.Lat + 20*time.Millisecond + wait)
		select {
		case <-ka.VerifDone():
			c.Shard.Inconc("self-close: the endpoint closed before the fault was injected")
			p.CloseAll()
			return
		default:
		}
		switch cause {
		case "one-way-outage":
			kaIn.SetBlackhole(true, true)
		case "read-error":
			// the next read of the transport that is started fails once:
			// only the receive direction is affected, sending works
			kaIn.FailRecvsAfter(0, 1, fmt.Errorf("read: transient transport error (injected)"))
			if backlog == 0 {
				backlog = 1 // an acknowledgement has to come back
			}
		default:
			kaOut.FailNextSends(1, fmt.Errorf("write: transient transport error (injected)"))
			if backlog == 0 {
				backlog = 1 // something has to be written
			}
		}
		go func() {
			for i := 0; i < backlog; i++ {
				if ka.Send(eng.MsgBytes('a', 3+i, 30)) != nil {
					return
				}
			}
		}()
		// The endpoint closes itself (how fast is C13's subject; here a
		// connection that stays open is simply not a case of this slice).
		select {
		case <-ka.VerifDone():
		case <-time.After(pp[0] + pp[1] + 2*time.Minute):
			c.Shard.Count("self_close_cases_without_a_close", 1)
			c.Shard.Eval("")
			cancel()
			p.CloseAll()
			return
		}
		tClose := time.Now()
		told := false
		select {
		case <-recvErr:
			told = true
			c.Shard.Max("max_peer_told_after_self_close_ms", time.Since(tClose).Milliseconds())
		case <-time.After(10*time.Second + 4*conf.Lat):
		}
		fins := 0
		for _, e := range kaOut.Log() {
			if e.P.Type == sim.TFin {
				fins++
			}
		}
		if !told {
			c.Shard.Violate("peer-not-told|self-close", fmt.Sprintf("the %s closed itself (%s) while its transport towards the peer worked; 10 s later the peer's blocked Recv has not failed (%d FIN packets were put on the wire) [%s]", rep["keepalive_side"], cause, fins, conf.String()), rep)
		}
		c.Shard.Count("self_close_cases", 1)
		c.Shard.Eval(fmt.Sprintf("selfclose|%s|%v|%v|%d", cause, kaClient, pp[0], conf.N))
		cancel()
		p.CloseAll()
	})
}

// runC12MailboxCancel: a mailbox client connection is being set up while the
// relay refuses to open one of its streams (the receive stream, the send
// stream, or both); the attempt is then cancelled through its context - the
// only handle that exists before the constructor returns. The constructor must
// return within a bounded time, and whatever goroutines of the attempt are
// still winding down must do so quietly (a panic in one of them ends the
// worker process and is attributed to this case). Real time.
func runC12MailboxCancel(c *mon.Case) {
	rng := rand.New(rand.NewSource(c.Seed))
	relay := sim.NewRelay()
	relay.KeepLog, relay.KeepMsg = false, false
	var sid [64]byte
	rng.Read(sid[:])
	mode := rng.Intn(3)
	refuse := errors.New("rpc error: code = Unavailable desc = relay refuses the stream (injected)")
	relay.Fault = func(op sim.RelayOp) sim.RelayAction {
		if (op.Kind == "recvstream" && mode != 1) || (op.Kind == "sendstream" && mode != 0) {
			return sim.RelayAction{Fail: refuse}
		}
		return sim.RelayAction{}
	}
	ctx, cancel := context.WithCancel(context.Background())
	defer cancel()
	type ret struct {
		cc  *mailbox.ClientConn
		err error
	}
	done := make(chan ret, 1)
	go func() {
		cc, err := mailbox.NewClientConn(ctx, sid, "relay", relay, btclog.Disabled, func(mailbox.ClientStatus) {})
		done <- ret{cc, err}
	}()
	time.Sleep(time.Duration(300+rng.Intn(3000)) * time.Millisecond)
	t0 := time.Now()
	cancel()
	rep := map[string]any{"kind": "mailbox-cancel", "refused": []string{"receive stream", "send stream", "both streams"}[mode]}
	select {
	case r := <-done:
		c.Shard.Max("max_mailbox_cancel_return_ms", time.Since(t0).Milliseconds())
		if r.cc != nil {
			closed := make(chan struct{})
			go func() { _ = r.cc.Close(); close(closed) }()
			select {
			case <-closed:
			case <-time.After(20 * time.Second):
				c.Shard.Violate("close-hangs|mailbox-cancel", fmt.Sprintf("Close of a mailbox client connection whose set-up was cancelled (relay refused the %s) had not returned after 20 s", rep["refused"]), rep)
				mon.FlushAndExit(c.Shard)
			}
		}
	case <-time.After(20 * time.Second):
		c.Shard.Violate("handshake-cancel-hangs|mailbox", fmt.Sprintf("NewClientConn had not returned 20 s after its context was cancelled (relay refused the %s)", rep["refused"]), rep)
		mon.FlushAndExit(c.Shard)
	}
	// goroutines of the attempt that are still winding down get their time
	time.Sleep(3 * time.Second)
	c.Shard.Count("mailbox_cancel_cases", 1)
	c.Shard.Eval(fmt.Sprintf("mailbox-cancel|%d", mode))
}
