package checks

import (
	"bytes"
	"context"
	"encoding/hex"
	"fmt"
	"github.com/btcsuite/btcd/btcec/v2"
	"strings"
	"sync"
	"testing"
	"time"

	"verifharness/eng"
	"verifharness/mon"
	"verifharness/sim"

	"github.com/btcsuite/btclog/v2"
	"github.com/lightninglabs/lightning-node-connect/mailbox"
	"github.com/lightningnetwork/lnd/aezeed"
)

func TestC17(t *testing.T) {
	mon.Main(t, mon.Check{
		ID:          "C17",
		Level:       "exploration",
		Rule:        "(M) mnemonic codec: for PRNG 14-byte entropies (plus boundary patterns: all zero, all one, leading zero bytes, single bits) the real PassphraseEntropyToMnemonic / PassphraseMnemonicToEntropy are compared with an independent big-endian 11-bit packer over aezeed's word list: M2E(E2M(e)) == e with the last two bits cleared; E2M(M2E(w)) == w for PRNG word vectors and vectors containing the first and the last list word in every position; NewPassphraseEntropy returns a fixed point. (S) session identifiers through the real ConnData.SID and GetSID: both parties derive the same SID from the same passphrase; after pairing SID(local=a, remote=B) == SID(local=b, remote=A); send/receive stream ids differ exactly in the last bit and the client's send stream is the server's receive stream; distinct secrets (PRNG pairs, single-bit neighbours, swapped roles with a third key) give distinct SIDs. (R) real ClientConn / ServerConn over the in-memory relay: client LocalAddr == server RemoteAddr and vice versa, the two differ in the last bit only, and the stream ids the relay saw (boxes created, streams opened) are exactly those two. (L) life cycle of one ConnData: after it derived the passphrase SID, SetRemote(key) makes it name the SID that a party starting with that stored key derives, and again after the key is replaced. (F) callback faults: remote-key callback failing in a key-based handshake; auth-data callback failing once in a first pairing - afterwards both parties must name the same rendezvous and pattern. Non-trivial = every case (each checks hundreds of values); distinct = (kind, slice).",
		Assumptions: []string{"'different secrets give different identifiers' is decided over the sample (no collision observed), not proved"},
		NCases: func(tier string) int {
			if tier == "thorough" {
				return 10000
			}
			return 160
		},
		MinEvals: 40,
		Run:      runC17,
	})
}

// refWords is the harness's own entropy -> words mapping.
func refWords(e [mailbox.NumPassphraseEntropyBytes]byte) [mailbox.NumPassphraseWords]string {
	var w [mailbox.NumPassphraseWords]string
	for i := 0; i < mailbox.NumPassphraseWords; i++ {
		idx := 0
		for b := 0; b < 11; b++ {
			bit := i*11 + b
			idx = idx<<1 | int(e[bit/8]>>(7-bit%8))&1
		}
		w[i] = aezeed.DefaultWordList[idx]
	}
	return w
}

func refEntropy(w [mailbox.NumPassphraseWords]string) ([mailbox.NumPassphraseEntropyBytes]byte, bool) {
	var e [mailbox.NumPassphraseEntropyBytes]byte
	for i, word := range w {
		idx := -1
		for j, x := range aezeed.DefaultWordList {
			if x == word {
				idx = j
				break
			}
		}
		if idx < 0 {
			return e, false
		}
		for b := 0; b < 11; b++ {
			if idx>>(10-b)&1 == 1 {
				bit := i*11 + b
				e[bit/8] |= 1 << (7 - bit%8)
			}
		}
	}
	return e, true
}

// runC17CallbackFault: two paired parties run the key-based handshake again
// (every reconnect does) and the application callback that persists the remote
// key fails on one side. Whatever that does to the handshake, the secret the
// identifiers are derived from has not changed: both parties must still derive
// the same, key-based identifier.
func runC17CallbackFault(c *mon.Case) {
	rng := c.Rng
	pass := eng.Entropy(rng)
	keyC, keyS := eng.NewKey(rng), eng.NewKey(rng)
	if c.Idx%48 == 20 {
		// First pairing over the passphrase; the initiator's application
		// fails to persist the auth payload it is handed. Whatever that
		// does to the initiator's handshake, the responder has seen the
		// whole exchange: afterwards both must name the same rendezvous
		// (nobody moved, or both moved).
		cfg := eng.HSConfig{CMin: 2, CMax: 2, SMin: byte(rng.Intn(3)), SMax: 2, PassC: pass, PassS: append([]byte{}, pass...), Auth: []byte("macaroon"), KeyC: keyC, KeyS: keyS, FailAuthCBC: 1}
		r := eng.RunHandshake(cfg)
		if r.C.NewErr != nil || r.S.NewErr != nil {
			c.Shard.Inconc("machine construction failed")
			return
		}
		sc, e1 := r.C.CD.SID()
		ss, e2 := r.S.CD.SID()
		rep := map[string]any{"kind": "F", "callback_fails_on": "client (auth data, first pairing)", "client_err": fmt.Sprint(r.C.Err), "server_err": fmt.Sprint(r.S.Err)}
		if e1 != nil || e2 != nil || sc != ss || r.C.CD.HandshakePattern().Name != r.S.CD.HandshakePattern().Name {
			c.Shard.Violate("sid-diverges-after-auth-callback-fault", fmt.Sprintf("first pairing with the initiator's auth-data callback failing once: afterwards the client names rendezvous %x.. (%s), the server %x.. (%s) (errors %v / %v; handshake results %v / %v)", sc[:4], r.C.CD.HandshakePattern().Name, ss[:4], r.S.CD.HandshakePattern().Name, e1, e2, r.C.Err, r.S.Err), rep)
		}
		c.Shard.Count("callback_fault_handshakes", 1)
		c.Shard.Eval(fmt.Sprintf("F|auth|%x", sc[:3]))
		return
	}
	cfg := eng.HSConfig{KK: true, CMin: 2, CMax: 2, SMin: 2, SMax: 2, PassC: pass, PassS: pass, Auth: []byte("a"), KeyC: keyC, KeyS: keyS}
	who := []string{"client", "server", "both"}[rng.Intn(3)]
	if who != "server" {
		cfg.FailRemoteCBC = 1
	}
	if who != "client" {
		cfg.FailRemoteCBS = 1
	}
	r := eng.RunHandshake(cfg)
	if r.C.NewErr != nil || r.S.NewErr != nil {
		c.Shard.Inconc("machine construction failed")
		return
	}
	want, err := mailbox.NewConnData(keyC, keyS.PubKey(), pass, nil, nil, nil).SID()
	if err != nil {
		c.Shard.Inconc(err.Error())
		return
	}
	sc, e1 := r.C.CD.SID()
	ss, e2 := r.S.CD.SID()
	rep := map[string]any{"kind": "F", "callback_fails_on": who, "client_err": fmt.Sprint(r.C.Err), "server_err": fmt.Sprint(r.S.Err)}
	if e1 != nil || e2 != nil || sc != ss || sc != want {
		c.Shard.Violate("sid-diverges-after-callback-fault", fmt.Sprintf("paired parties, key-based handshake with the remote-key callback failing on %s: afterwards client SID %x.. server SID %x.. key-derived SID %x.. (errors %v / %v)", who, sc[:4], ss[:4], want[:4], e1, e2), rep)
	}
	if r.C.CD.HandshakePattern().Name != mailbox.KK || r.S.CD.HandshakePattern().Name != mailbox.KK {
		c.Shard.Violate("pattern-reverts-after-callback-fault", fmt.Sprintf("paired parties, remote-key callback failing on %s: a party would use the passphrase pattern again", who), rep)
	}
	c.Shard.Count("callback_fault_handshakes", 1)
	c.Shard.Eval(fmt.Sprintf("F|%s|%x", who, sc[:3]))
}

func runC17(c *mon.Case) {
	if c.Idx%16 == 4 {
		runC17CallbackFault(c)
		return
	}
	switch c.Idx % 8 {
	case 7:
		runC17Conns(c)
	case 5, 6:
		runC17SIDs(c)
	default:
		runC17Codec(c)
	}
}

func runC17Codec(c *mon.Case) {
	rng := c.Rng
	var n int64
	check := func(e [mailbox.NumPassphraseEntropyBytes]byte) {
		n++
		w, err := mailbox.PassphraseEntropyToMnemonic(e)
		if err != nil {
			c.Shard.Violate("e2m-error", fmt.Sprintf("entropy %x: %v", e, err), nil)
			return
		}
		if rw := refWords(e); rw != w {
			c.Shard.Violate("e2m-differs", fmt.Sprintf("entropy %x: words %v, the independent 11-bit packer gives %v", e, w, rw), map[string]any{"entropy": hex.EncodeToString(e[:])})
			return
		}
		back := mailbox.PassphraseMnemonicToEntropy(w)
		want := e
		want[13] &^= 0x03
		if back != want {
			c.Shard.Violate("m2e-not-inverse", fmt.Sprintf("entropy %x -> %v -> %x, expected %x (110 significant bits)", e, w, back, want), map[string]any{"entropy": hex.EncodeToString(e[:])})
		}
	}
	checkWords := func(w [mailbox.NumPassphraseWords]string) {
		n++
		e := mailbox.PassphraseMnemonicToEntropy(w)
		if re, ok := refEntropy(w); ok && re != e {
			c.Shard.Violate("m2e-differs", fmt.Sprintf("words %v -> %x, the independent packer gives %x", w, e, re), map[string]any{"words": strings.Join(w[:], " ")})
			return
		}
		w2, err := mailbox.PassphraseEntropyToMnemonic(e)
		if err != nil || w2 != w {
			c.Shard.Violate("e2m-not-inverse", fmt.Sprintf("words %v -> %x -> %v (err %v)", w, e, w2, err), map[string]any{"words": strings.Join(w[:], " ")})
		}
	}
	var e [mailbox.NumPassphraseEntropyBytes]byte
	for i := 0; i < 1500; i++ {
		rng.Read(e[:])
		switch i % 10 {
		case 0: // leading zero bytes
			for j := 0; j < 1+rng.Intn(4); j++ {
				e[j] = 0
			}
		case 1: // trailing zero bytes
			for j := 0; j < 1+rng.Intn(4); j++ {
				e[13-j] = 0
			}
		case 2: // single bit
			e = [mailbox.NumPassphraseEntropyBytes]byte{}
			bit := (c.Idx*150 + i/10) % 112
			e[bit/8] = 1 << (bit % 8)
		case 3:
			for j := range e {
				e[j] = 0xff
			}
			e[rng.Intn(14)] = byte(rng.Intn(256))
		}
		check(e)
	}
	check([mailbox.NumPassphraseEntropyBytes]byte{})
	// word vectors
	var w [mailbox.NumPassphraseWords]string
	for i := 0; i < 600; i++ {
		for j := range w {
			w[j] = aezeed.DefaultWordList[rng.Intn(2048)]
		}
		switch i % 6 {
		case 0:
			w[rng.Intn(10)] = aezeed.DefaultWordList[0]
		case 1:
			w[rng.Intn(10)] = aezeed.DefaultWordList[2047]
		case 2:
			w[0] = aezeed.DefaultWordList[rng.Intn(16)] // small first index: leading zero bits
		case 3:
			w[i/6%10] = aezeed.DefaultWordList[(c.Idx*100+i/6)%2048]
		}
		checkWords(w)
	}
	// NewPassphraseEntropy is a fixed point
	for i := 0; i < 20; i++ {
		words, ent, err := mailbox.NewPassphraseEntropy()
		n++
		if err != nil {
			c.Shard.Violate("new-entropy-error", err.Error(), nil)
			continue
		}
		if mailbox.PassphraseMnemonicToEntropy(words) != ent {
			c.Shard.Violate("new-entropy-not-fixed-point", fmt.Sprintf("NewPassphraseEntropy returned words %v and entropy %x, but the words decode to %x", words, ent, mailbox.PassphraseMnemonicToEntropy(words)), nil)
		}
		if w2, _ := mailbox.PassphraseEntropyToMnemonic(ent); w2 != words {
			c.Shard.Violate("new-entropy-not-fixed-point", fmt.Sprintf("NewPassphraseEntropy: entropy %x encodes to %v, not to the returned words %v", ent, w2, words), nil)
		}
	}
	c.Shard.Count("codec_round_trips", n)
	c.Shard.Eval(fmt.Sprintf("M|%d", c.Idx))
	if c.Idx == 0 {
		c.Shard.Sample(map[string]any{"kind": "M", "round_trips": n})
	}
}

func runC17SIDs(c *mon.Case) {
	rng := c.Rng
	seen := map[[64]byte]string{}
	var n int64
	note := func(sid [64]byte, what string) {
		if prev, ok := seen[sid]; ok && prev != what {
			c.Shard.Violate("sid-collision", fmt.Sprintf("two different secrets give the same session id: %s and %s", prev, what), nil)
		}
		seen[sid] = what
	}
	for i := 0; i < 60; i++ {
		n++
		keyA, keyB, keyC := eng.NewKey(rng), eng.NewKey(rng), eng.NewKey(rng)
		pass := eng.Entropy(rng)
		// before pairing: the passphrase alone
		a := mailbox.NewConnData(keyA, nil, pass, nil, nil, nil)
		b := mailbox.NewConnData(keyB, nil, append([]byte{}, pass...), []byte("auth"), nil, nil)
		sa, err1 := a.SID()
		sb, err2 := b.SID()
		if err1 != nil || err2 != nil || sa != sb {
			c.Shard.Violate("passphrase-sid-differs", fmt.Sprintf("same passphrase %x, client SID %x.., server SID %x.. (err %v/%v)", pass, sa[:8], sb[:8], err1, err2), nil)
		}
		note(sa, fmt.Sprintf("passphrase %x", pass))
		// single-bit neighbour
		p2 := append([]byte{}, pass...)
		bit := rng.Intn(112)
		p2[bit/8] ^= 1 << (bit % 8)
		s2, _ := mailbox.NewConnData(keyA, nil, p2, nil, nil, nil).SID()
		note(s2, fmt.Sprintf("passphrase %x", p2))
		// after pairing: the static keys
		a2 := mailbox.NewConnData(keyA, keyB.PubKey(), pass, nil, nil, nil)
		b2 := mailbox.NewConnData(keyB, keyA.PubKey(), pass, nil, nil, nil)
		ka, err1 := a2.SID()
		kb, err2 := b2.SID()
		if err1 != nil || err2 != nil || ka != kb {
			c.Shard.Violate("key-sid-differs", fmt.Sprintf("SID(local=a, remote=B) %x.. != SID(local=b, remote=A) %x.. (err %v/%v)", ka[:8], kb[:8], err1, err2), nil)
		}
		if ka == sa {
			c.Shard.Violate("key-sid-equals-passphrase-sid", "the key-derived SID equals the passphrase-derived one", nil)
		}
		note(ka, fmt.Sprintf("keys %x/%x", keyA.PubKey().SerializeCompressed()[:6], keyB.PubKey().SerializeCompressed()[:6]))
		kc, _ := mailbox.NewConnData(keyA, keyC.PubKey(), pass, nil, nil, nil).SID()
		note(kc, fmt.Sprintf("keys %x/%x", keyA.PubKey().SerializeCompressed()[:6], keyC.PubKey().SerializeCompressed()[:6]))
		// the passphrase must not influence the key-derived SID
		kd, _ := mailbox.NewConnData(keyA, keyB.PubKey(), p2, nil, nil, nil).SID()
		if kd != ka {
			c.Shard.Violate("key-sid-depends-on-passphrase", "after pairing the SID changes with the passphrase", nil)
		}
		// the life cycle of one ConnData: it derived the passphrase SID
		// above, now it learns the peer's key (as the pairing handshake
		// does), later another one: every time it must name the rendezvous
		// that a party starting afresh with that stored key derives
		okCB := func(*btcec.PublicKey) error { return nil }
		a3 := mailbox.NewConnData(keyA, nil, pass, nil, okCB, nil)
		if i%2 == 0 {
			a3 = a
		}
		_, _ = a3.SID()
		errA, errB := a3.SetRemote(keyB.PubKey()), b.SetRemote(keyA.PubKey())
		la, err1 := a3.SID()
		lb, err2 := b.SID()
		if errA != nil || errB != nil || err1 != nil || err2 != nil || la != ka || lb != ka {
			c.Shard.Violate("sid-stale-after-pairing", fmt.Sprintf("a ConnData that derived the passphrase SID and then stored the peer's key names SID %x.. / %x.., a party starting with the stored key derives %x.. (errors %v %v %v %v)", la[:8], lb[:8], ka[:8], errA, errB, err1, err2), nil)
		}
		if err := a3.SetRemote(keyC.PubKey()); err == nil {
			if lc, _ := a3.SID(); lc != kc {
				c.Shard.Violate("sid-stale-after-key-change", fmt.Sprintf("after the stored remote key was replaced the ConnData names SID %x.., a party starting with the new key derives %x..", lc[:8], kc[:8]), nil)
			}
		}
		// a signer that fails: no identifier may be produced (a constant
		// fallback would make unrelated sessions share their streams)
		f1 := &eng.FlakySigner{PrivKeyECDH: keyA, Fail: true}
		f2 := &eng.FlakySigner{PrivKeyECDH: keyC, Fail: true}
		x1, e1 := mailbox.NewConnData(f1, keyB.PubKey(), pass, nil, nil, nil).SID()
		x2, e2 := mailbox.NewConnData(f2, keyB.PubKey(), p2, nil, nil, nil).SID()
		if e1 == nil && e2 == nil && x1 == x2 {
			c.Shard.Violate("sid-collision-on-signer-failure", "two unrelated paired sessions whose key operation fails derive the same session id instead of an error", nil)
		} else if e1 == nil && x1 != ka {
			c.Shard.Violate("sid-wrong-on-signer-failure", "a failing key operation yields a session id that differs from the peer's instead of an error", nil)
		}
		// per direction
		for _, sid := range [][64]byte{sa, ka} {
			s2c, c2s := mailbox.GetSID(sid, true), mailbox.GetSID(sid, false)
			if s2c == c2s {
				c.Shard.Violate("directions-share-stream", fmt.Sprintf("server->client and client->server stream ids are equal for SID %x..", sid[:8]), nil)
			}
			d := 0
			for j := range s2c {
				if s2c[j] != c2s[j] {
					d++
				}
			}
			if d != 1 || s2c[63]^c2s[63] != 1 {
				c.Shard.Violate("stream-ids-not-last-bit", fmt.Sprintf("stream ids differ in %d bytes (last byte xor %02x), expected exactly the last bit", d, s2c[63]^c2s[63]), nil)
			}
			note(c2s, "client->server stream of "+hex.EncodeToString(sid[:8]))
		}
	}
	c.Shard.Count("sid_groups", n)
	c.Shard.Count("distinct_sids_seen", int64(len(seen)))
	c.Shard.Eval(fmt.Sprintf("S|%d", c.Idx))
	if c.Idx%40 == 5 {
		c.Shard.Sample(map[string]any{"kind": "S", "groups": n, "distinct_sids": len(seen)})
	}
}

func runC17Conns(c *mon.Case) {
	rng := c.Rng
	relay := sim.NewRelay()
	relay.KeepMsg = false
	pass := eng.Entropy(rng)
	cd := mailbox.NewConnData(eng.NewKey(rng), nil, pass, nil, nil, nil)
	if rng.Intn(2) == 0 {
		cd = mailbox.NewConnData(eng.NewKey(rng), eng.NewKey(rng).PubKey(), pass, nil, nil, nil)
	}
	sid, err := cd.SID()
	if err != nil {
		c.Shard.Inconc(err.Error())
		return
	}
	ctx, cancel := context.WithCancel(context.Background())
	defer cancel()
	var wg sync.WaitGroup
	var cc *mailbox.ClientConn
	var sc *mailbox.ServerConn
	var ce, se error
	wg.Add(2)
	go func() {
		defer wg.Done()
		sc, se = mailbox.NewServerConn(ctx, "relay", relay, sid, btclog.Disabled, func(mailbox.ServerStatus) {})
	}()
	go func() {
		defer wg.Done()
		cc, ce = mailbox.NewClientConn(ctx, sid, "relay", relay, btclog.Disabled, func(mailbox.ClientStatus) {})
	}()
	done := make(chan struct{})
	go func() { wg.Wait(); close(done) }()
	select {
	case <-done:
	case <-time.After(90 * time.Second):
		c.Shard.Inconc("mailbox connection not established within 90 s")
		cancel()
		<-done
		return
	}
	if ce != nil || se != nil {
		c.Shard.Inconc(fmt.Sprintf("mailbox conn: %v / %v", ce, se))
		return
	}
	defer func() { cc.Close(); sc.Stop() }()
	cl, cr := cc.LocalAddr().(*mailbox.Addr), cc.RemoteAddr().(*mailbox.Addr)
	sl, sr := sc.LocalAddr().(*mailbox.Addr), sc.RemoteAddr().(*mailbox.Addr)
	if cl.SID != sr.SID || cr.SID != sl.SID {
		c.Shard.Violate("addr-mismatch", fmt.Sprintf("client local %x.. remote %x..; server local %x.. remote %x..: the client's send stream must be the server's receive stream and vice versa", cl.SID[60:], cr.SID[60:], sl.SID[60:], sr.SID[60:]), nil)
	}
	if !bytes.Equal(cl.SID[:63], cr.SID[:63]) || cl.SID[63]^cr.SID[63] != 1 {
		c.Shard.Violate("addr-not-last-bit", "a connection's two stream ids do not differ exactly in the last bit", nil)
	}
	// what the relay saw
	want := map[string]bool{hex.EncodeToString(cl.SID[:])[:6]: true, hex.EncodeToString(cr.SID[:])[:6]: true}
	sawSend, sawRecv := map[string]bool{}, map[string]bool{}
	// exchange one message each way so that all four streams get used
	go func() { _, _ = cc.Write([]byte("ping")) }()
	buf := make([]byte, 16)
	_ = sc.SetReadDeadline(time.Now().Add(30 * time.Second))
	if n, err := sc.Read(buf); err != nil || string(buf[:n]) != "ping" {
		c.Shard.Inconc(fmt.Sprintf("echo failed: %v", err))
		return
	}
	go func() { _, _ = sc.Write([]byte("pong")) }()
	if n, err := cc.Read(buf); err != nil || string(buf[:n]) != "pong" {
		c.Shard.Inconc(fmt.Sprintf("echo failed: %v", err))
		return
	}
	for _, e := range relay.Log() {
		id := e.Stream
		switch e.Kind {
		case "sendstream":
			sawSend[id] = true
		case "recvstream":
			if e.Note == "" {
				sawRecv[id] = true
			}
		}
		_ = want
	}
	full := func(sid [64]byte) string {
		h := hex.EncodeToString(sid[:])
		return h[:6] + ".." + h[len(h)-4:]
	}
	if !sawSend[full(cl.SID)] || !sawRecv[full(cl.SID)] || !sawSend[full(cr.SID)] || !sawRecv[full(cr.SID)] || len(sawSend) != 2 || len(sawRecv) != 2 {
		c.Shard.Violate("relay-streams", fmt.Sprintf("the relay saw send streams %v and receive streams %v; expected exactly %s and %s in both roles", keysOf(sawSend), keysOf(sawRecv), full(cl.SID), full(cr.SID)), nil)
	}
	// The connection objects are re-created for every new connection of a
	// session (Refresh*Conn): the refreshed pair must use the same two
	// streams in the same roles.
	if (c.Idx/8)%3 != 2 {
		_ = cc.Close()
		_ = sc.Close()
		var cc2 *mailbox.ClientConn
		var sc2 *mailbox.ServerConn
		var ce2, se2 error
		var wg2 sync.WaitGroup
		wg2.Add(2)
		go func() { defer wg2.Done(); sc2, se2 = mailbox.RefreshServerConn(sc) }()
		go func() { defer wg2.Done(); cc2, ce2 = mailbox.RefreshClientConn(ctx, cc) }()
		done2 := make(chan struct{})
		go func() { wg2.Wait(); close(done2) }()
		select {
		case <-done2:
		case <-time.After(60 * time.Second):
			cancel()
			<-done2
		}
		// the addresses are fixed at construction, whether or not the
		// GBN handshake of the refreshed pair succeeded in time
		if sc2 != nil {
			l2, r2 := sc2.LocalAddr().(*mailbox.Addr), sc2.RemoteAddr().(*mailbox.Addr)
			if l2.SID != sl.SID || r2.SID != sr.SID {
				c.Shard.Violate("refresh-streams", fmt.Sprintf("the refreshed server connection sends on %s and receives on %s; the original used %s and %s", full(l2.SID), full(r2.SID), full(sl.SID), full(sr.SID)), nil)
			}
			defer sc2.Stop()
		}
		if cc2 != nil {
			l2, r2 := cc2.LocalAddr().(*mailbox.Addr), cc2.RemoteAddr().(*mailbox.Addr)
			if l2.SID != cl.SID || r2.SID != cr.SID {
				c.Shard.Violate("refresh-streams", fmt.Sprintf("the refreshed client connection sends on %s and receives on %s; the original used %s and %s", full(l2.SID), full(r2.SID), full(cl.SID), full(cr.SID)), nil)
			}
			defer cc2.Close()
		}
		if sc2 == nil && cc2 == nil {
			c.Shard.Inconc(fmt.Sprintf("refresh failed on both sides: %v / %v", ce2, se2))
		} else {
			c.Shard.Count("refreshed_conn_pairs", 1)
		}
	}
	c.Shard.Count("conn_pairs", 1)
	c.Shard.Eval(fmt.Sprintf("R|%d", c.Idx))
	if c.Idx%80 == 7 {
		c.Shard.Sample(map[string]any{"kind": "R", "client_local": cl.String()[:40], "client_remote": cr.String()[:40]})
	}
}

func keysOf(m map[string]bool) []string {
	var out []string
	for k := range m {
		out = append(out, k)
	}
	return out
}
