package checks

import (
	"context"
	"errors"
	"fmt"
	"github.com/lightninglabs/lightning-node-connect/mailbox"
	"math/rand"
	"net"
	"sync"
	"sync/atomic"
	"testing"
	"testing/synctest"
	"time"

	"verifharness/eng"
	"verifharness/mon"
	"verifharness/sim"

	"github.com/lightninglabs/lightning-node-connect/gbn"
)

func TestC13(t *testing.T) {
	mon.Main(t, mon.Check{
		ID:    "C13",
		Level: "exploration",
		Rule:  "real gbn code in virtual time, keepalive on. (D) dead peer: after some acknowledged traffic the transport goes silent (incoming link blackholed, or both) at an instant swept over offsets 0..2*ping after the last activity and over exact multiples of the ping interval; at that instant the application queues k in {0,1,N-1,N,N+5} messages; a small real-time slice repeats the dead-peer case with a slow transport (every write takes 0.8 ping intervals, in half of the cases first with a live peer whose acknowledgements arrive while ticks are pending, so the send loop is hardly ever parked when a keepalive timer fires; it cannot run in a bubble because Close then waits for a write while other goroutines wait on its sync.Once); ping/pong in {(5s,3s),(7s,3s),(1s,1s),(100ms,50ms),(30s,10s),(1s,3s)}, N in {1,3,20,254}, static and adaptive timeouts. Oracle: the endpoint closes itself within ping+pong+10*resendTimeout(at closure)+1s of the silence instant, and its blocked callers return. (B) a few real-time cases in which the peer dies while the endpoint is sending over a transport with backpressure (the relay's mailbox is a pipe: the write that follows blocks), same oracle; (M) the same one layer up: a paired mailbox session over a relay whose mailboxes hold four messages, client or server uploading when the other dies, bound ping+pong+15 s; in a third of these cases nobody dies but the uploader's sends fail at the relay for 14 s: afterwards the connection must be closed or delivering again within 25 s. (H) healthy idle: both ends keepalive (mailbox's 7s/3s vs 5s/3s and others), round-trip time in {0, pong/2, pong-20ms}, 1-24 h of virtual idleness, a third of them with the ACK of a keepalive ping lost now and then (the resent ping is answered by a NACK within the pong timeout); oracle: no endpoint closes and ping packets were seen on the wire. One case in nineteen is a healthy-idle case of the edge family N=1, static 1 s resend, both ends pinging every 1 s with a 3 s pong timeout over a 2.98 s round trip, 24 h (pings always outstanding, ticks coinciding with arrivals). A case whose bubble freezes (a goroutine waits on a mutex, which stops the virtual clock) is repeated on the real clock when its bound is below 100 s and judged there. A third of the cases run over links whose Send/Recv calls take a PRNG-chosen 1 ns .. 200 µs (schedule perturbation around coinciding timer expiries and arrivals). The backpressure cases come in three modes: the first blocked write is a fresh packet; it is a retransmission (acknowledgements lost, at least one more message accepted, application stopped, resend timeout below the ping time); or the peer was sending too and every write takes 30 ms, so that an acknowledgement write of the receive loop is in flight and completes after the send loop's write has blocked. The mailbox-level cases run on the pairing connection, on the first connection at the key-derived rendezvous or on a refreshed connection (0, 1 or 2 close/reconnect rounds before the test). Non-trivial = silence was injected while the connection was open / pings observed; distinct = (kind, ping, pong, N, backlog class, one/two-sided, timeout mode, offset bucket).",
		Assumptions: []string{
			"detection bound uses the connection's own (possibly boosted) resend timeout read through the hook: the send loop may sit in the resend sync wait (3x resend timeout) when the timers fire",
		},
		NCases: func(tier string) int {
			if tier == "thorough" {
				return 60000
			}
			return 1200
		},
		MinEvals: 100,
		Run:      runC13,
		Finish: func(sh *mon.Shard) {
			if eng.AnyFrozen.Load() {
				mon.FlushAndExit(sh)
			}
		},
	})
}

type pp struct{ ping, pong time.Duration }

var c13PP = []pp{
	{5 * time.Second, 3 * time.Second}, {7 * time.Second, 3 * time.Second}, {time.Second, time.Second},
	{100 * time.Millisecond, 50 * time.Millisecond}, {30 * time.Second, 10 * time.Second},
	{time.Second, 3 * time.Second}, // ping interval shorter than the pong timeout
}

// runC13SlowWrites: dead peer behind a slow transport, on the real clock.
func runC13SlowWrites(c *mon.Case) { runC13SlowWritesAttempt(c, 0) }

func runC13SlowWritesAttempt(c *mon.Case, attempt int) {
	rng := rand.New(rand.NewSource(c.Seed))
	// The pong timeout is well above the cost of one write (0.8 ping
	// intervals) plus scheduling noise: the peer's answer must be able to
	// arrive in time, or the "live peer" phase would be outside the property.
	k := []pp{{100 * time.Millisecond, time.Second}, {250 * time.Millisecond, time.Second}}[rng.Intn(2)]
	n := []uint8{1, 3, 20}[rng.Intn(3)]
	conf := eng.GBNConf{N: n, PingC: k.ping, PongC: k.pong, Static: true, Resend: time.Second}
	ctx, cancel := context.WithCancel(context.Background())
	defer cancel()
	p := eng.NewPair(conf)
	ce, se := p.Connect(ctx)
	if ce != nil || se != nil {
		c.Shard.Inconc(fmt.Sprintf("handshake failed: %v / %v", ce, se))
		p.CloseAll()
		return
	}
	go func() {
		for {
			if _, err := p.S.Recv(); err != nil {
				return
			}
		}
	}()
	for i := 0; i < 3; i++ {
		_ = p.C.Send(eng.MsgBytes('a', i, 20))
	}
	time.Sleep(50 * time.Millisecond)
	p.C2S.SetSendCost(k.ping * 4 / 5)
	// phase 1 (half of the cases): the peer is still alive while the writes
	// are slow, so acknowledgements arrive while keepalive ticks are pending
	// behind a busy send loop; the connection must stay open
	sent := 3
	if rng.Intn(2) == 0 {
		for i := 0; i < 4; i++ {
			if err := p.C.Send(eng.MsgBytes('a', sent, 20)); err != nil {
				if attempt < 2 {
					// real clock: repeat with the same inputs, report
					// only what shows three times in a row
					cancel()
					go p.CloseAll()
					c.Shard.Count("slow_transport_repeats", 1)
					runC13SlowWritesAttempt(c, attempt+1)
					return
				}
				c.Shard.Violate("closed-while-healthy|slow-transport",
					fmt.Sprintf("Send failed (%v) on a live peer behind a slow transport (every write %v, ping %v, pong %v, N=%d)", err, k.ping*4/5, k.ping, k.pong, n),
					map[string]any{"kind": "S", "conf": conf.String()})
				cancel()
				p.CloseAll()
				return
			}
			sent++
		}
		time.Sleep(k.ping)
	}
	p.S2C.SetBlackhole(true, true)
	t0 := time.Now()
	go func() {
		for i := 0; i < int(n)+5; i++ {
			if p.C.Send(eng.MsgBytes('a', sent+i, 20)) != nil {
				return
			}
		}
	}()
	bound := k.ping + k.pong + 10*time.Second + time.Duration(2*int(n)+4)*k.ping + 5*time.Second
	rep := map[string]any{"kind": "S", "conf": conf.String(), "bound": bound.String()}
	select {
	case <-p.C.VerifDone():
		c.Shard.Max("max_detection_slow_transport_ms", time.Since(t0).Milliseconds())
	case <-time.After(bound):
		c.Shard.Violate("dead-peer-undetected|slow-transport",
			fmt.Sprintf("transport silent for %v (real time), every write taking %v, window N=%d full: the endpoint is still open (ping %v, pong %v)", bound, k.ping*4/5, n, k.ping, k.pong), rep)
	}
	p.C2S.SetSendCost(0)
	cancel()
	// a wedged endpoint may not be closable (C12's subject); do not wait for it
	cl := make(chan struct{})
	go func() { p.CloseAll(); close(cl) }()
	select {
	case <-cl:
	case <-time.After(10 * time.Second):
		c.Shard.Inconc("slow-transport case: Close did not return within 10 s (judged by C12)")
	}
	c.Shard.Count("slow_transport_cases", 1)
	c.Shard.Eval(fmt.Sprintf("S|%v|%d", k.ping, n))
}

// c13Frozen counts the bubbles of this worker that froze.
var c13Frozen atomic.Int64

// frozenBubble runs f in a synctest bubble and reports true if the bubble did
// not finish within guard of real time (its goroutines stay behind; the worker
// then ends through FlushAndExit).
func frozenBubble(c *mon.Case, f func(), guard time.Duration) bool {
	done := make(chan struct{})
	go func() {
		defer close(done)
		synctest.Test(c.T, func(t *testing.T) { f() })
	}()
	select {
	case <-done:
		return false
	case <-time.After(guard):
	}
	eng.AnyFrozen.Store(true)
	c.Shard.Count("virtual_time_freezes", 1)
	if c13Frozen.Add(1) >= 4 {
		c.Shard.Inconc("four bubbles of this worker froze; the worker stops here")
		mon.FlushAndExit(c.Shard)
	}
	return true
}

// runC13Backpressure: dead peer behind a transport with backpressure, on the
// real clock. The hashmail relay's mailbox is a pipe (aperture's stream is two
// io.Pipes and an unbuffered channel): once its reader is gone, the writer's
// Send blocks after a message or two. Here the peer dies while the endpoint is
// sending: everything from the peer is lost and the endpoint's next transport
// write blocks until its context is cancelled.
func runC13Backpressure(c *mon.Case) {
	rng := rand.New(rand.NewSource(c.Seed))
	k := []pp{{250 * time.Millisecond, 500 * time.Millisecond}, {500 * time.Millisecond, time.Second}}[rng.Intn(2)]
	n := []uint8{1, 3, 20}[rng.Intn(3)]
	conf := eng.GBNConf{N: n, PingC: k.ping, PongC: k.pong, Static: true, Resend: time.Second}
	// In half of the cases the application has stopped sending when the peer
	// dies and the resend timeout is shorter than the ping time, so that the
	// first write that blocks is a retransmission, not a fresh packet.
	mode := rng.Intn(3)
	resendFirst := mode == 0
	if resendFirst {
		conf.Resend = 100 * time.Millisecond
	}
	// In a third of the cases the peer was sending too, and every write of
	// the endpoint's transport takes 30 ms: when the peer dies, the receive
	// loop is in the middle of writing an acknowledgement (that write still
	// completes) while the send loop's next write blocks - two overlapping
	// writes, one of which returns after the other has blocked.
	ackInFlight := mode == 1
	ctx, cancel := context.WithCancel(context.Background())
	defer cancel()
	p := eng.NewPair(conf)
	ce, se := p.Connect(ctx)
	if ce != nil || se != nil {
		c.Shard.Inconc(fmt.Sprintf("handshake failed: %v / %v", ce, se))
		p.CloseAll()
		return
	}
	go func() {
		for {
			if _, err := p.S.Recv(); err != nil {
				return
			}
		}
	}()
	if ackInFlight {
		p.C2S.SetSendCost(30 * time.Millisecond)
		go func() {
			for {
				if _, err := p.C.Recv(); err != nil {
					return
				}
			}
		}()
		go func() {
			for i := 0; ; i++ {
				if p.S.Send(eng.MsgBytes('b', i, 100)) != nil {
					return
				}
				time.Sleep(10 * time.Millisecond)
			}
		}()
	}
	var stopSending atomic.Bool
	var accepted atomic.Int64
	go func() {
		for i := 0; !stopSending.Load(); i++ {
			if p.C.Send(eng.MsgBytes('a', i, 200)) != nil {
				return
			}
			accepted.Add(1)
			time.Sleep(5 * time.Millisecond)
		}
	}()
	time.Sleep(time.Duration(100+rng.Intn(400)) * time.Millisecond)
	if resendFirst {
		// lose the acknowledgements of the last packets (at least one
		// more message is accepted after the peer's packets stopped
		// arriving, so that the queue is not empty), stop the application,
		// and let the fresh packets drain into the link
		p.S2C.SetBlackhole(true, true)
		a0 := accepted.Load()
		for w := 0; w < 60 && accepted.Load() < a0+2; w++ {
			time.Sleep(5 * time.Millisecond)
		}
		stopSending.Store(true)
		time.Sleep(30 * time.Millisecond)
	}
	t0 := time.Now()
	p.S2C.SetBlackhole(true, true)
	p.C2S.SetBlockSend(true)
	bound := k.ping + k.pong + 10*time.Second + 5*time.Second
	rep := map[string]any{"kind": "B", "conf": conf.String(), "bound": bound.String(), "first_blocked_write_is_a_retransmission": resendFirst, "acknowledgement_write_in_flight": ackInFlight}
	select {
	case <-p.C.VerifDone():
		c.Shard.Max("max_detection_backpressure_ms", time.Since(t0).Milliseconds())
	case <-time.After(bound):
		c.Shard.Violate("dead-peer-undetected|transport-backpressure",
			fmt.Sprintf("the peer died while the endpoint was sending over a transport with backpressure (its next write blocks, nothing arrives any more): %v later the endpoint is still open (ping %v, pong %v, N=%d); its send loop sits in the transport's send and cannot serve the keepalive timers", bound, k.ping, k.pong, n), rep)
	}
	p.C2S.SetBlockSend(false)
	cancel()
	go p.CloseAll()
	c.Shard.Count("backpressure_cases", 1)
	c.Shard.Eval(fmt.Sprintf("B|%v|%d|mode=%d", k.ping, n, mode))
}

// runC13MailboxDeadPeer: the same situation one layer up, on the real clock: a
// paired mailbox session (real Server/Client, GBN with the mailbox's keepalive
// of 7 s/3 s on the client and 5 s/3 s on the server) over a relay whose
// mailboxes hold four messages, one party uploading; then the other party dies
// (it reads nothing any more and everything it sends is lost). The uploader's
// connection must close within ping + pong + 15 s.
func runC13MailboxDeadPeer(c *mon.Case) {
	rng := rand.New(rand.NewSource(c.Seed))
	pass := eng.Entropy(rng)
	relay := sim.NewRelay()
	relay.KeepMsg, relay.KeepLog = false, false
	relay.Cap = 4
	s := eng.NewMboxParty(eng.NewKey(rng), nil, pass, []byte("auth"), 0, 2)
	cl := eng.NewMboxParty(eng.NewKey(rng), nil, pass, nil, 0, 2)
	sid, _ := cl.CD.SID()
	c2s, s2c := sidHex(mailbox.GetSID(sid, false)), sidHex(mailbox.GetSID(sid, true))
	var sidMu sync.Mutex
	// How many times the parties close and reconnect before the test: the
	// first connection is the pairing one, the second the first at the
	// key-derived rendezvous, the third a refreshed one (same rendezvous).
	reconnects := (c.Idx / 100) % 3
	serverDies := (c.Idx/100)%2 == 0
	// a third of the cases: nobody dies, but the uploader's sends fail at
	// the relay for 14 s (longer than ping + pong), then work again
	outage := (c.Idx/200)%3 == 0
	var dead, sendsFail atomic.Bool
	relay.Fault = func(op sim.RelayOp) sim.RelayAction {
		sidMu.Lock()
		c2s, s2c := c2s, s2c
		sidMu.Unlock()
		if dead.Load() && op.Kind == "send" && ((serverDies && op.Stream == s2c) || (!serverDies && op.Stream == c2s)) {
			return sim.RelayAction{Drop: true}
		}
		if sendsFail.Load() && op.Kind == "send" && ((serverDies && op.Stream == c2s) || (!serverDies && op.Stream == s2c)) {
			return sim.RelayAction{Fail: errors.New("rpc error: code = Unavailable desc = transport is closing (injected)")}
		}
		return sim.RelayAction{}
	}
	m, err := eng.NewMboxSession(relay, s, cl)
	if err != nil {
		c.Shard.Inconc("mailbox dead-peer session: " + err.Error())
		return
	}
	m.StartServer()
	m.StartClient()
	defer m.Stop()
	var sc, cc net.Conn
	deadline := time.After(60 * time.Second)
	for sc == nil || cc == nil {
		select {
		case sc = <-m.SConns:
		case cc = <-m.CConns:
		case <-deadline:
			c.Shard.Inconc("mailbox dead-peer session: no paired connection within 60 s")
			return
		}
	}
	for round := 0; round < reconnects; round++ {
		// a short exchange so that the handshake of this connection is
		// over on both sides, then both give the connection up
		if _, err := cc.Write([]byte("x")); err == nil {
			_, _ = sc.Read(make([]byte, 8))
		}
		_ = cc.Close()
		_ = sc.Close()
		sc, cc = nil, nil
		deadline := time.After(90 * time.Second)
		for sc == nil || cc == nil {
			select {
			case sc = <-m.SConns:
			case cc = <-m.CConns:
			case <-deadline:
				c.Shard.Inconc(fmt.Sprintf("mailbox dead-peer session: no connection within 90 s after reconnect %d", round+1))
				return
			}
		}
	}
	if reconnects > 0 {
		nsid, err := cl.CD.SID()
		if err != nil {
			c.Shard.Inconc("mailbox dead-peer session: " + err.Error())
			return
		}
		sidMu.Lock()
		c2s, s2c = sidHex(mailbox.GetSID(nsid, false)), sidHex(mailbox.GetSID(nsid, true))
		sidMu.Unlock()
		c.Shard.Count("mailbox_cases_on_a_reconnected_session", 1)
	}
	sidMu.Lock()
	c2sNow, s2cNow := c2s, s2c
	sidMu.Unlock()
	up, down := cc, sc // the uploader and the party that dies
	if !serverDies {
		up, down = sc, cc
	}
	var received atomic.Int64
	go func() {
		b := make([]byte, 65536)
		for {
			n, err := down.Read(b)
			received.Add(int64(n))
			if err != nil {
				return
			}
		}
	}()
	readDone := make(chan error, 1)
	go func() { _, err := up.Read(make([]byte, 64)); readDone <- err }()
	go func() {
		for i := 0; i < 4000; i++ {
			if _, err := up.Write(eng.StreamBytes('z', i*32768, 32768)); err != nil {
				return
			}
		}
	}()
	time.Sleep(time.Duration(500+rng.Intn(1000)) * time.Millisecond)
	t0 := time.Now()
	who := map[bool]string{true: "client", false: "server"}[serverDies]
	if outage {
		// The connection may ride the outage out or fail visibly; what it
		// may not do is neither: still open, and nothing delivered, 25 s
		// after the relay works again.
		sendsFail.Store(true)
		var closedEarly bool
		select {
		case <-readDone:
			closedEarly = true
		case <-time.After(14 * time.Second):
		}
		sendsFail.Store(false)
		rep := map[string]any{"kind": "M-outage", "uploader": who, "relay_capacity": relay.Cap}
		if !closedEarly {
			at := received.Load()
			select {
			case <-readDone:
			case <-time.After(25 * time.Second):
				if received.Load() == at {
					c.Shard.Violate("silent-hang|mailbox-send-outage",
						fmt.Sprintf("mailbox session, the %s uploading: its sends failed at the relay for 14 s and then worked again; 25 s later its connection is neither closed nor has a single further byte been delivered", who), rep)
					mon.FlushAndExit(c.Shard)
				}
			}
		}
		_ = up.Close()
		_ = down.Close()
		c.Shard.Count("mailbox_send_outage_cases", 1)
		c.Shard.Eval("MO|" + who)
		return
	}
	dead.Store(true)
	if serverDies {
		relay.FreezeReads(c2sNow, true)
	} else {
		relay.FreezeReads(s2cNow, true)
	}
	bound := 7*time.Second + 3*time.Second + 15*time.Second
	rep := map[string]any{"kind": "M", "uploader": who, "relay_capacity": relay.Cap, "bound": bound.String(), "reconnects_before": reconnects}
	select {
	case <-readDone:
		c.Shard.Max("max_detection_mailbox_backpressure_ms", time.Since(t0).Milliseconds())
	case <-time.After(bound):
		c.Shard.Violate("dead-peer-undetected|mailbox-backpressure",
			fmt.Sprintf("mailbox session over a relay that holds %d messages per mailbox: the peer of the uploading %s died (reads nothing, sends nothing); %v later the %s's connection is still open and its Read has not returned", relay.Cap, who, bound, who), rep)
		// a connection in that state may not be closable either: end the
		// worker here instead of hanging in the clean-up
		mon.FlushAndExit(c.Shard)
	}
	_ = up.Close()
	_ = down.Close()
	c.Shard.Count("mailbox_backpressure_cases", 1)
	c.Shard.Eval("M|" + who)
}

func runC13(c *mon.Case) {
	if c.Idx%100 == 11 {
		runC13MailboxDeadPeer(c)
		return
	}
	if c.Idx%75 == 37 {
		runC13Backpressure(c)
		return
	}
	if c.Idx%19 == 7 {
		runC13HealthyKind(c, true)
		return
	}
	if c.Idx%75 == 74 {
		runC13SlowWrites(c)
		return
	}
	if c.Idx%5 == 4 {
		runC13Healthy(c)
		return
	}
	runC13Dead(c)
}

func runC13Dead(c *mon.Case) {
	rng := c.Rng
	k := c13PP[rng.Intn(len(c13PP))]
	n := []uint8{1, 3, 20, 254}[rng.Intn(4)]
	conf := eng.GBNConf{N: n, PingC: k.ping, PongC: k.pong, PingS: k.ping, PongS: k.pong,
		Lat: []time.Duration{0, 10 * time.Millisecond, 200 * time.Millisecond}[rng.Intn(3)]}
	if conf.Lat*2 >= k.pong {
		conf.Lat = 0
	}
	if rng.Intn(2) == 0 {
		// (200 ms: the sync wait after a resend, 3x the resend timeout, is
		// then shorter than every pong timeout but one, so that several
		// keepalive ticks can pass while the window stays full)
		conf.Static, conf.Resend = true, []time.Duration{200 * time.Millisecond, time.Second, 2 * time.Second, 6 * time.Second}[rng.Intn(4)]
	}
	// the peer's own keepalive may be different or off
	switch rng.Intn(3) {
	case 0:
		conf.PingS, conf.PongS = 0, 0
	case 1:
		conf.PingS, conf.PongS = 5*time.Second, 3*time.Second
	}
	testServer := rng.Intn(2) == 0
	if testServer {
		conf.PingC, conf.PongC, conf.PingS, conf.PongS = conf.PingS, conf.PongS, k.ping, k.pong
	}
	backlogs := []int{0, 1, int(n) - 1, int(n), int(n) + 5}
	bi := rng.Intn(len(backlogs))
	backlog := backlogs[bi]
	if backlog < 0 {
		backlog = 0
	}
	bclass := []string{"0", "1", "N-1", "N", "N+5"}[bi]
	twoSided := rng.Intn(2) == 0
	pre := rng.Intn(2*int(n) + 2)
	if pre > 60 {
		pre = 60
	}
	var offset time.Duration
	obucket := "rand"
	switch rng.Intn(3) {
	case 0:
		offset = time.Duration(rng.Int63n(int64(2*k.ping) + 1))
	case 1:
		offset = k.ping*time.Duration(rng.Intn(3)) + time.Duration(rng.Intn(3)-1)
		obucket = "ping-multiple"
		if offset < 0 {
			offset = 0
		}
	default:
		offset = k.ping + time.Duration(rng.Int63n(int64(k.pong)+1)) // between ping and pong expiry
		obucket = "ping..pong"
	}
	if rng.Intn(3) == 0 {
		// transport calls that take 1 ns .. 200 µs: what coincides with a
		// timer expiry is handled just before or just after it
		conf.JitterMax = []time.Duration{time.Nanosecond, time.Microsecond, 200 * time.Microsecond}[rng.Intn(3)]
		conf.JitterSeed = rng.Int63()
	}
	rep := map[string]any{"kind": "D", "conf": conf.String(), "endpoint": map[bool]string{true: "server", false: "client"}[testServer],
		"backlog": backlog, "two_sided": twoSided, "pre_messages": pre, "silence_offset": offset.String()}

	body := func(virtual bool) {
		ctx, cancel := context.WithCancel(context.Background())
		defer cancel()
		p := eng.NewPair(conf)
		ce, se := p.Connect(ctx)
		if ce != nil || se != nil {
			c.Shard.Inconc(fmt.Sprintf("handshake failed: %v / %v", ce, se))
			p.CloseAll()
			return
		}
		x, y := p.C, p.S
		in, out := p.S2C, p.C2S
		if testServer {
			x, y = p.S, p.C
			in, out = p.C2S, p.S2C
		}
		// acknowledged pre-traffic x -> y
		go func() {
			for {
				if _, err := y.Recv(); err != nil {
					return
				}
			}
		}()
		for i := 0; i < pre; i++ {
			if err := x.Send(eng.MsgBytes('a', i, 20)); err != nil {
				c.Shard.Inconc("pre-traffic send failed: " + err.Error())
				p.CloseAll()
				return
			}
		}
		time.Sleep(4*conf.Lat + 50*time.Millisecond)
		time.Sleep(offset)
		select {
		case <-x.VerifDone():
			c.Shard.Violate("closed-while-healthy", fmt.Sprintf("endpoint closed itself before any silence was injected (offset %v after traffic on a healthy link)", offset), rep)
			p.CloseAll()
			return
		default:
		}
		// a slow transport: every write of the endpoint under test takes a
		// good part of the ping interval, so that its send loop is hardly
		// ever parked when a keepalive timer fires
		// silence
		tSilence := time.Now()
		in.SetBlackhole(true, true)
		if twoSided {
			out.SetBlackhole(true, true)
		}
		var sendsReturned atomic.Int64
		sendDone := make(chan struct{})
		go func() {
			defer close(sendDone)
			for i := 0; i < backlog; i++ {
				err := x.Send(eng.MsgBytes('a', pre+i, 20))
				sendsReturned.Add(1)
				if err != nil {
					return
				}
			}
		}()
		horizon := 2 * time.Hour
		if !virtual {
			// real-time repetition of a case whose bubble froze
			horizon = k.ping + k.pong + 10*x.VerifState().ResendTimeout + 11*time.Second
		}
		var closedAfter time.Duration = -1
		select {
		case <-x.VerifDone():
			closedAfter = time.Since(tSilence)
		case <-time.After(horizon):
		}
		st := x.VerifState()
		bound := k.ping + k.pong + 10*st.ResendTimeout + time.Second
		if !virtual {
			bound += 5 * time.Second // scheduling slack on the real clock
			rep["clock"] = "real (the virtual-time bubble of this case froze)"
		}
		rep["resend_timeout_at_end"] = st.ResendTimeout.String()
		rep["bound"] = bound.String()
		switch {
		case closedAfter < 0:
			c.Shard.Violate("dead-peer-undetected|backlog="+bclass,
				fmt.Sprintf("transport silent for %v, endpoint still open (ping %v, pong %v, N=%d, backlog %d, window size %d) [%s]", horizon, k.ping, k.pong, n, backlog, st.Size, conf.String()), rep)
		case closedAfter > bound:
			c.Shard.Violate("dead-peer-slow|backlog="+bclass,
				fmt.Sprintf("endpoint closed %v after the transport went silent; bound ping+pong+10*RT+1s = %v (RT %v) [%s]", closedAfter, bound, st.ResendTimeout, conf.String()), rep)
		default:
			c.Shard.Max("max_detection_ms", closedAfter.Milliseconds())
		}
		if closedAfter >= 0 {
			select {
			case <-sendDone:
			case <-time.After(10 * time.Second):
				c.Shard.Violate("blocked-send-after-keepalive-close", "endpoint closed by keepalive but a blocked Send did not return within 10 virtual seconds", rep)
			}
		}
		if !virtual {
			// a deadlocked endpoint may not be closable at all (C12's subject)
			go p.CloseAll()
			cancel()
			return
		}
		p.CloseAll()
		cancel()
		<-sendDone
		if lk := eng.Settle(); len(lk) > 0 {
			c.Shard.Inconc("leak (judged by C12)")
			mon.FlushAndExit(c.Shard)
		}
	}
	if frozenBubble(c, func() { body(true) }, 60*time.Second) {
		// The bubble's clock stopped: a goroutine waits on a mutex whose
		// holder needs the clock (harmless), or the endpoint has deadlocked
		// internally (then its keepalive is dead too). The real clock decides.
		est := k.ping + k.pong + 10*conf.Resend + 16*time.Second + offset
		if est > 100*time.Second {
			c.Shard.Inconc(fmt.Sprintf("case %d: bubble froze; too long to repeat on the real clock (%v)", c.Idx, est))
		} else {
			before := c.Shard.NViol()
			body(false)
			if c.Shard.NViol() > before {
				mon.FlushAndExit(c.Shard)
			}
		}
	}
	c.Shard.Count("dead_peer_cases", 1)
	c.Shard.Eval(fmt.Sprintf("D|%v/%v|N=%d|b=%s|two=%v|static=%v|%s|srv=%v", k.ping, k.pong, n, bclass, twoSided, conf.Static, obucket, testServer))
	if c.Idx%150 == 0 {
		c.Shard.Sample(rep)
	}
}

func runC13Healthy(c *mon.Case) { runC13HealthyKind(c, false) }

// runC13HealthyKind: edge selects the configuration family in which the ping
// interval is shorter than the round trip and the round trip is just below the
// pong timeout, with a window of one: pings are nearly always outstanding, the
// window is nearly always full, and ticks keep coinciding with arrivals (this
// is where defect D21 showed, once in about thirty 24-hour runs).
func runC13HealthyKind(c *mon.Case, edge bool) {
	rng := c.Rng
	kc := c13PP[rng.Intn(len(c13PP))]
	ks := kc
	if rng.Intn(2) == 0 {
		kc, ks = pp{7 * time.Second, 3 * time.Second}, pp{5 * time.Second, 3 * time.Second} // as the mailbox configures it
	}
	minPong := kc.pong
	if ks.pong < minPong {
		minPong = ks.pong
	}
	rtt := []time.Duration{0, minPong / 2, minPong - 20*time.Millisecond}[rng.Intn(3)]
	conf := eng.GBNConf{N: []uint8{1, 3, 20, 254}[rng.Intn(4)], PingC: kc.ping, PongC: kc.pong, PingS: ks.ping, PongS: ks.pong, Lat: rtt / 2}
	if rng.Intn(2) == 0 {
		conf.Static, conf.Resend = true, []time.Duration{time.Second, 2 * time.Second, 6 * time.Second}[rng.Intn(3)]
	}
	// the handshake must survive the latency too
	conf.HSTimeout = 2*rtt + 2*time.Second
	idle := []time.Duration{time.Hour, 6 * time.Hour, 24 * time.Hour}[rng.Intn(3)]
	if kc.ping < time.Second {
		idle = 20 * time.Minute // keep the event count bounded for the 100 ms setting
	}
	pre := rng.Intn(10)
	// A third of the healthy cases lose the ACK of a keepalive ping now and
	// then (never twice in a row): the ping is resent after the resend timeout
	// and the live peer answers it with a NACK, well within the pong timeout.
	ackLoss := rng.Intn(3) == 0 && minPong >= 3*time.Second && rtt < time.Second
	if ackLoss {
		conf.Static, conf.Resend = true, time.Second
	}
	if rng.Intn(3) == 0 && rtt < minPong-time.Millisecond {
		conf.JitterMax = []time.Duration{time.Nanosecond, time.Microsecond, 200 * time.Microsecond}[rng.Intn(3)]
		conf.JitterSeed = rng.Int63()
	}
	if edge {
		kc, ks = pp{time.Second, 3 * time.Second}, pp{time.Second, 3 * time.Second}
		minPong = 3 * time.Second
		rtt = 2980 * time.Millisecond
		conf = eng.GBNConf{N: 1, PingC: kc.ping, PongC: kc.pong, PingS: ks.ping, PongS: ks.pong, Lat: rtt / 2,
			Static: true, Resend: time.Second, HSTimeout: 2*rtt + 2*time.Second}
		idle, ackLoss = 24*time.Hour, false
		if j := rng.Intn(4); j > 0 {
			conf.JitterMax = []time.Duration{time.Nanosecond, time.Microsecond, 200 * time.Microsecond}[j-1]
			conf.JitterSeed = rng.Int63()
		}
	}
	rep := map[string]any{"kind": "H", "edge_family": edge, "ack_loss": ackLoss, "conf": conf.String(), "rtt": rtt.String(), "idle": idle.String(), "pre_messages": pre}
	var pings atomic.Int64
	if frozenBubble(c, func() {
		ctx, cancel := context.WithCancel(context.Background())
		defer cancel()
		p := eng.NewPair(conf)
		p.C2S.KeepLog, p.S2C.KeepLog = false, false
		// a ring of the last wire events is the witness of a violation
		var ringMu sync.Mutex
		ring := make([]string, 0, 160)
		note := func(dir, what string, pk sim.Pkt) {
			ringMu.Lock()
			if len(ring) == cap(ring) {
				copy(ring, ring[1:])
				ring = ring[:len(ring)-1]
			}
			ring = append(ring, fmt.Sprintf("%v %s %s %s", time.Since(p.T0), dir, what, pk.String()))
			ringMu.Unlock()
		}
		p.C2S.OnSend = func(idx int, pk sim.Pkt) {
			if pk.Type == sim.TData && pk.Ping {
				pings.Add(1)
			}
			note("c2s", "send", pk)
		}
		p.S2C.OnSend = func(idx int, pk sim.Pkt) {
			if pk.Type == sim.TData && pk.Ping {
				pings.Add(1)
			}
			note("s2c", "send", pk)
		}
		p.C2S.OnDeliver = func(idx int, pk sim.Pkt) { note("c2s", "deliver", pk) }
		p.S2C.OnDeliver = func(idx int, pk sim.Pkt) { note("s2c", "deliver", pk) }
		if ackLoss {
			for _, l := range []*sim.Link{p.C2S, p.S2C} {
				lastDropped := false
				lr := rand.New(rand.NewSource(rng.Int63()))
				l.SetDecider(func(idx int, pk sim.Pkt, now time.Time) sim.Decision {
					if pk.Type == sim.TAck && !lastDropped && lr.Intn(4) == 0 && idx > 4 {
						lastDropped = true
						return sim.Decision{Drop: true}
					}
					if pk.Type == sim.TAck || pk.Type == sim.TNack {
						lastDropped = false
					}
					return sim.Decision{}
				})
			}
		}
		ce, se := p.Connect(ctx)
		if ce != nil || se != nil {
			c.Shard.Inconc(fmt.Sprintf("handshake failed: %v / %v", ce, se))
			p.CloseAll()
			return
		}
		go func() {
			for {
				if _, err := p.S.Recv(); err != nil {
					return
				}
			}
		}()
		for i := 0; i < pre; i++ {
			_ = p.C.Send(eng.MsgBytes('a', i, 20))
		}
		var who string
		var at time.Duration
		select {
		case <-p.C.VerifDone():
			who, at = "client", time.Since(p.T0)
		case <-p.S.VerifDone():
			who, at = "server", time.Since(p.T0)
		case <-time.After(idle):
		}
		if who != "" {
			ringMu.Lock()
			rep["last_wire_events"] = append([]string{}, ring...)
			ringMu.Unlock()
			c.Shard.Violate("healthy-idle-closed",
				fmt.Sprintf("%s closed itself after %v of idleness although the peer answers with round-trip time %v < pong timeout [%s]", who, at, rtt, conf.String()), rep)
		}
		p.CloseAll()
		cancel()
		if lk := eng.Settle(); len(lk) > 0 {
			c.Shard.Inconc("leak (judged by C12)")
			mon.FlushAndExit(c.Shard)
		}
	}, 120*time.Second) {
		c.Shard.Inconc(fmt.Sprintf("case %d: the bubble of a healthy-idle case froze; hours of idleness cannot be repeated on the real clock", c.Idx))
		return
	}
	c.Shard.Count("pings_observed", pings.Load())
	c.Shard.Count("healthy_idle_cases", 1)
	c.Shard.Count("healthy_idle_virtual_hours", int64(idle/time.Hour))
	if pings.Load() == 0 {
		c.Shard.Inconc("healthy-idle case saw no ping on the wire")
		c.Shard.Eval("")
	} else {
		c.Shard.Eval(fmt.Sprintf("H|%v/%v,%v/%v|rtt=%v|N=%d|static=%v|idle=%v", kc.ping, kc.pong, ks.ping, ks.pong, rtt, conf.N, conf.Static, idle))
	}
	if c.Idx%150 == 4 {
		rep["pings"] = pings.Load()
		c.Shard.Sample(rep)
	}
}

var _ = gbn.DefaultN
