package checks

import (
	"bytes"
	"context"
	"fmt"
	"net"
	"sync"
	"sync/atomic"
	"time"

	"verifharness/eng"
	"verifharness/mon"
	"verifharness/sim"

	"github.com/btcsuite/btclog/v2"
	"github.com/lightninglabs/lightning-node-connect/mailbox"
)

// runC07Live is slice F of C07: the whole stack live. A real ServerConn and a
// real ClientConn (GBN inside) meet over the relay model, real NoiseGrpcConn
// handshakes run on top of them, both applications write and read - and the
// relay rewrites ONE message in flight: the j-th data packet of one direction
// (j small: an act of the Noise handshake; larger: an encrypted record) gets a
// hostile control-message framing, a well-framed but hostile Noise record, or
// is replaced by other GBN packets altogether. The bytes therefore reach
// ClientConn.recv / ServerConn.recvFromStream, gbn, ReceiveControlMsg
// (MsgData.Deserialize), connKit.Read and NoiseGrpcConn.Read / the handshake
// in the order the real relay would deliver them.
//
// Oracles: no panic (worker death, journalled); whatever the applications read
// is a prefix of what the peer wrote (the rewritten message is lost, so the
// stream either recovers through a retransmission or ends in an error - it
// never continues with other bytes).
func runC07Live(c *mon.Case) {
	rng := c.Rng
	k := c.Idx / 40
	dirC2S := rng.Intn(2) == 0
	target := []int{0, 1, 2, 3, 4, 5, 6, 8}[k%8]
	mode := (k / 8) % 6
	if c.Tier != "thorough" {
		mode = rng.Intn(6)
	}

	// the hostile replacement
	var repl func(pkt []byte) []byte
	desc := ""
	frame := func(version byte, l uint32, payload []byte) []byte {
		return append([]byte{version, byte(l >> 24), byte(l >> 16), byte(l >> 8), byte(l)}, payload...)
	}
	switch mode {
	case 0: // hostile control-message framing inside a valid GBN packet
		junk := make([]byte, rng.Intn(40))
		rng.Read(junk)
		frames := [][]byte{{}, {0}, {0, 0}, {0, 0, 0, 0}, {0, 0, 0, 0, 0}, frame(0, 5, []byte{1, 2}), frame(0, 0xffffffff, nil), frame(0, 0xfffffffb, junk),
			frame(0, 0x7fffffff, junk), frame(0, 0x80000000, junk), frame(9, uint32(len(junk)), junk), frame(255, 0, nil), frame(0, 1, junk), frame(0, uint32(len(junk))+1, junk), junk}
		f := frames[rng.Intn(len(frames))]
		repl = func(pkt []byte) []byte { return append(append([]byte{}, pkt[:4]...), f...) }
		desc = fmt.Sprintf("framing %x", trunc(f))
	case 1: // well-framed control message whose payload is hostile for Noise
		l := []int{0, 1, 2, 15, 16, 17, 18, 19, 33, 34, 35, 100, 600}[rng.Intn(13)]
		p := make([]byte, l)
		rng.Read(p)
		f := frame(0, uint32(l), p)
		repl = func(pkt []byte) []byte { return append(append([]byte{}, pkt[:4]...), f...) }
		desc = fmt.Sprintf("noise bytes, %d", l)
	case 2: // the packet is replaced by another GBN packet
		alts := [][]byte{{}, {sim.TData}, {sim.TData, 0, 0}, {sim.TData, 0, 0, 0}, {sim.TSyn, 20}, {sim.TSyn, 255}, {sim.TSynAck}, {sim.TFin}, {sim.TAck, byte(rng.Intn(256))},
			{sim.TNack, byte(rng.Intn(256))}, {0}, {7, 7, 7}, {sim.TData, byte(rng.Intn(256)), 1, 0, 0, 0, 0, 0, 1, 9}, {sim.TData, byte(rng.Intn(256)), 0, 1}}
		a := alts[rng.Intn(len(alts))]
		repl = func(pkt []byte) []byte { return a }
		desc = fmt.Sprintf("gbn packet %x", a)
	case 4, 5: // replay of an earlier message of the same direction / reflection of one of the opposite direction
		// (filled in by the relay hook below, which keeps the payloads it has seen)
		desc = map[int]string{4: "replay of an earlier payload of this direction", 5: "reflection of a payload of the opposite direction"}[mode]
	default: // flags of the packet changed (final-chunk / ping), payload kept
		fl := [][2]byte{{0, 0}, {1, 1}, {0, 1}, {2, 0}, {255, 255}}[rng.Intn(5)]
		repl = func(pkt []byte) []byte { q := append([]byte{}, pkt...); q[2], q[3] = fl[0], fl[1]; return q }
		desc = fmt.Sprintf("flags %d,%d", fl[0], fl[1])
	}

	relay := sim.NewRelay()
	relay.KeepLog, relay.KeepMsg = false, false
	var sid [64]byte
	rng.Read(sid[:])
	var seen atomic.Int64
	var rewritten atomic.Int64
	// GetSID: the stream named sid itself carries server -> client, the one
	// with the last bit flipped client -> server.
	clientBox := fmt.Sprintf("%x", sid[:])
	var hmu sync.Mutex
	var sameDir, otherDir [][]byte // payloads of data packets seen so far
	relay.Rewrite = func(stream string, n int, msg []byte) []byte {
		toServer := stream != clientBox
		// data packets that are not keepalive pings
		if len(msg) < 4 || msg[0] != sim.TData || msg[3] != 0 {
			return msg
		}
		hmu.Lock()
		defer hmu.Unlock()
		if toServer != dirC2S {
			otherDir = append(otherDir, append([]byte{}, msg[4:]...))
			return msg
		}
		mine := append([]byte{}, msg[4:]...)
		defer func() { sameDir = append(sameDir, mine) }()
		if int(seen.Add(1))-1 != target || rewritten.Load() > 0 {
			return msg
		}
		switch mode {
		case 4, 5:
			pool := sameDir
			if mode == 5 {
				pool = otherDir
			}
			if len(pool) == 0 {
				return msg // nothing to replay yet: this session rewrites nothing
			}
			pick := len(pool) - 1 - int(seen.Load())%len(pool)
			if mode == 5 {
				// the record of the opposite direction with the same
				// ordinal (same nonces) if it has been seen: with the
				// passphrase pattern the client sends two acts before its
				// first record, the server one
				idx := target + 1
				if dirC2S {
					idx = target - 1
				}
				if idx >= 0 && idx < len(pool) {
					pick = idx
				}
			}
			rewritten.Add(1)
			return append(append([]byte{}, msg[:4]...), pool[pick]...)
		}
		rewritten.Add(1)
		return repl(msg)
	}

	ctx, cancel := context.WithCancel(context.Background())
	defer cancel()
	var wg sync.WaitGroup
	var ce, se error
	var cc *mailbox.ClientConn
	var sc *mailbox.ServerConn
	wg.Add(2)
	go func() {
		defer wg.Done()
		sc, se = mailbox.NewServerConn(ctx, "relay", relay, sid, btclog.Disabled, func(mailbox.ServerStatus) {})
	}()
	go func() {
		defer wg.Done()
		cc, ce = mailbox.NewClientConn(ctx, sid, "relay", relay, btclog.Disabled, func(mailbox.ClientStatus) {})
	}()
	wg.Wait()
	if ce != nil || se != nil {
		if cc != nil {
			cc.Close()
		}
		if sc != nil {
			sc.Stop()
		}
		c.Shard.Inconc(fmt.Sprintf("mailbox connections could not be set up: %v / %v", ce, se))
		return
	}
	defer func() { cc.Close(); sc.Stop() }()

	pass := eng.Entropy(rng)
	cp := eng.NewMboxParty(eng.NewKey(rng), nil, pass, nil, 0, 2)
	sp := eng.NewMboxParty(eng.NewKey(rng), nil, pass, []byte("auth-c07-live"), 0, 2)
	sizes := []int{1, 100, 5000, 40000, 7}
	total := 0
	for _, s := range sizes {
		total += s
	}
	type side struct {
		conn  net.Conn
		hsErr error
		got   []byte
		rdErr error
	}
	var cs, ss side
	run := func(s *side, dir byte, closeUnder func(), hs func() (net.Conn, error)) {
		defer wg.Done()
		s.conn, s.hsErr = hs()
		if s.hsErr != nil {
			// what grpc does with a connection whose handshake failed
			closeUnder()
			return
		}
		var w sync.WaitGroup
		w.Add(1)
		go func() { defer w.Done(); _, _ = eng.StreamWriter(s.conn, dir, sizes) }()
		buf := make([]byte, 1+rng.Intn(70000))
		errs := 0
		for len(s.got) < total && errs < 3 {
			n, err := s.conn.Read(buf)
			s.got = append(s.got, buf[:n]...)
			if err != nil {
				// a reader that keeps reading after an error
				s.rdErr = err
				errs++
			}
		}
		if errs >= 3 {
			// an application whose reads keep failing gives the
			// connection up (which also releases its own writer)
			_ = s.conn.Close()
		}
		w.Wait()
	}
	wg.Add(2)
	go run(&cs, 'c', func() { cc.Close() }, func() (net.Conn, error) { n, _, err := cp.Noise.ClientHandshake(ctx, "", cc); return n, err })
	go run(&ss, 's', func() { sc.Close() }, func() (net.Conn, error) { n, _, err := sp.Noise.ServerHandshake(sc); return n, err })
	done := make(chan struct{})
	go func() { wg.Wait(); close(done) }()
	select {
	case <-done:
	case <-time.After(15 * time.Second):
		// Some rewrites leave both parties waiting for each other (a
		// cleared final-chunk flag makes the receiver wait for the rest of
		// a message that the sender considers delivered). Whether that is
		// noticed is not C07's subject: the session is ended from outside
		// and judged on what was read.
		cancel()
		cc.Close()
		sc.Stop()
		select {
		case <-done:
			c.Shard.Count("live_ended_by_harness_deadline", 1)
		case <-time.After(30 * time.Second):
			c.Shard.Inconc("live session could not be torn down (" + desc + ")")
			c.Shard.Eval("")
			return
		}
	}
	rep := map[string]any{"kind": "F", "direction_client_to_server": dirC2S, "target_data_packet": target, "rewrite": desc, "rewritten": rewritten.Load()}
	// prefix oracle on both directions
	if want := eng.StreamBytes('s', 0, total); !bytes.HasPrefix(want, cs.got) {
		c.Shard.Violate("live|not-a-prefix", fmt.Sprintf("the client read %d bytes that are not a prefix of what the server wrote (%s, packet %d)", len(cs.got), desc, target), rep)
	}
	if want := eng.StreamBytes('c', 0, total); !bytes.HasPrefix(want, ss.got) {
		c.Shard.Violate("live|not-a-prefix", fmt.Sprintf("the server read %d bytes that are not a prefix of what the client wrote (%s, packet %d)", len(ss.got), desc, target), rep)
	}
	c.Shard.Count("live_sessions", 1)
	c.Shard.Count("live_messages_rewritten", rewritten.Load())
	if cs.hsErr != nil || ss.hsErr != nil {
		c.Shard.Count("live_handshake_failed", 1)
	} else if len(cs.got) == total && len(ss.got) == total {
		c.Shard.Count("live_stream_recovered", 1)
	} else {
		c.Shard.Count("live_stream_ended_in_error", 1)
	}
	if rewritten.Load() == 0 {
		c.Shard.Eval("")
		return
	}
	c.Shard.Eval(fmt.Sprintf("F|c2s=%v|pkt=%d|%s", dirC2S, target, desc))
	if c.Idx%400 == 6 {
		c.Shard.Sample(rep)
	}
}
