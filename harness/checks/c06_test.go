package checks

import (
	"fmt"
	"testing"
	"time"

	"verifharness/eng"
	"verifharness/mon"
)

func TestC06(t *testing.T) {
	mon.Main(t, mon.Check{
		ID:    "C06",
		Level: "exploration",
		Rule:  "real gbn code in virtual time; a fault prefix (random per-packet drop/dup/delay for 5..120 virtual s, or scripted tail loss: the first transmission of the last packet of a burst is dropped and the application then goes silent) is followed by a reliable link whose latency is below the resend timeout. Families: random (as C01), tail-loss, and resend-timeout >= peer ping interval. Oracles in virtual time: (stall) at the horizon (fault end + 2h) with both ends open and an accepted message undelivered, nothing was delivered during the last 20 resend timeouts (or: a Send call still blocked and nothing delivered for the last 30 virtual minutes); (closure) with keepalive off no endpoint ever closes by itself; with keepalive on, once one end has closed the other end's calls fail too (all application goroutines return before the horizon); (quiescence) after everything was delivered, 10 resend timeouts (>=30 s) of observation show no non-ping DATA packet on either link and no growth of the resend timeout. A merely slow run (still delivering at the horizon) is inconclusive, not a violation. A bubble that freezes (clock cannot advance) is repeated on the real clock and judged by the two-census mutex rule: gbn goroutines waiting for a lock for more than 5 s are an internal deadlock, i.e. a stall that nothing will end. Non-trivial = at least one packet fault and one delivered message; distinct = wire-trace hash.",
		Assumptions: []string{
			"unbounded eventually is restated as bounded progress on the virtual clock",
			"transport preserves per-direction order; faults start after a clean handshake",
		},
		NCases: func(tier string) int {
			if tier == "thorough" {
				return 40000
			}
			return 2400
		},
		MinEvals: 100,
		Run:      runC06,
		Finish: func(sh *mon.Shard) {
			if eng.AnyFrozen.Load() {
				mon.FlushAndExit(sh)
			}
		},
	})
}

func c06Scen(c *mon.Case) (*eng.Scen, string) {
	rng := c.Rng
	switch c.Idx % 6 {
	case 4: // tail loss
		n := eng.PickN(c.Tier, c.Idx/6)
		conf := eng.RandConf(rng, n)
		conf.Chunk = 0
		sc := &eng.Scen{Conf: conf, Horizon: 2 * time.Hour}
		bursts := 2 + rng.Intn(4)
		var sizes []int
		var gaps []time.Duration
		drop := map[uint32]bool{}
		for b := 0; b < bursts; b++ {
			k := 1 + rng.Intn(int(n)+2)
			for i := 0; i < k; i++ {
				sizes = append(sizes, 5+rng.Intn(60))
				g := time.Duration(0)
				if i == 0 && b > 0 {
					g = time.Duration(20+rng.Intn(100)) * time.Second // silence after the burst
				}
				gaps = append(gaps, g)
			}
			drop[uint32(len(sizes)-1)] = true // last packet of the burst
		}
		spec := eng.FaultSpec{DropFirstTx: drop, Seed: rng.Int63()}
		if rng.Intn(2) == 0 {
			sc.SizesA, sc.GapsA, sc.FaultC2S = sizes, gaps, spec
		} else {
			sc.SizesB, sc.GapsB, sc.FaultS2C = sizes, gaps, spec
		}
		return sc, "tail"
	case 5: // resend timeout >= the peer's ping interval
		n := eng.PickN(c.Tier, c.Idx/6)
		conf := eng.GBNConf{N: n, Static: true,
			Resend: []time.Duration{5 * time.Second, 6 * time.Second, 8 * time.Second, 12 * time.Second}[rng.Intn(4)],
			PingC:  7 * time.Second, PongC: 3 * time.Second, PingS: 5 * time.Second, PongS: 3 * time.Second,
			Lat: []time.Duration{0, 10 * time.Millisecond, 200 * time.Millisecond}[rng.Intn(3)]}
		if rng.Intn(2) == 0 {
			conf.PingC, conf.PongC, conf.PingS, conf.PongS = 2*time.Second, time.Second, 2*time.Second, time.Second
		}
		sc := &eng.Scen{Conf: conf, Horizon: 2 * time.Hour}
		cnt := 3 + rng.Intn(3*int(n)+3)
		if cnt > 120 {
			cnt = 120
		}
		sizes := eng.RandSizes(rng, cnt, false)
		spec := eng.FaultSpec{Drop: 0.15, Until: time.Duration(5+rng.Intn(30)) * time.Second, Seed: rng.Int63()}
		ack := eng.FaultSpec{Drop: 0.1, Until: spec.Until, Seed: rng.Int63()}
		if rng.Intn(2) == 0 {
			sc.SizesA, sc.FaultC2S, sc.FaultS2C = sizes, spec, ack
		} else {
			sc.SizesB, sc.FaultS2C, sc.FaultC2S = sizes, spec, ack
		}
		return sc, "slow-resend"
	}
	sc := eng.RandScen(rng, c.Tier, c.Idx)
	sc.Horizon = 2*time.Hour + 2*time.Minute
	// the property's premise: once reliable, the link's latency (round trip)
	// is below the resend timeout
	if sc.Conf.Static && 2*sc.Conf.Lat >= sc.Conf.Resend {
		sc.Conf.Lat = sc.Conf.Resend / 4
	}
	return sc, "random"
}

func runC06(c *mon.Case) {
	sc, family := c06Scen(c)
	rt := sc.Conf.Resend
	if rt < time.Second {
		rt = time.Second
	}
	sc.Quiesce = 10 * rt
	if sc.Quiesce < 30*time.Second {
		sc.Quiesce = 30 * time.Second
	}
	sc.QuiesceWait = 30 * time.Minute
	r, frozen := eng.RunScenGuarded(c.T, sc, eng.Hooks{OnLeak: leakHookInconc(c, sc)}, 90*time.Second)
	if frozen {
		// the bubble's clock cannot advance: either something harmless
		// holds a mutex across a timed wait, or the connection has
		// deadlocked internally - a stall that no timer will ever end
		budget := sc.FaultC2S.Until
		if sc.FaultS2C.Until > budget {
			budget = sc.FaultS2C.Until
		}
		stuck := eng.DeadlockProbe(sc, eng.Hooks{}, budget+30*time.Second)
		if len(stuck) > 0 {
			var st []string
			for _, g := range stuck {
				st = append(st, g.Stack)
			}
			c.Shard.Violate("stall|deadlock|"+family,
				fmt.Sprintf("the connection deadlocked internally: %d goroutine(s) of gbn have been waiting for a mutex for more than 5 s of real time (first in %s); data is pending and no timer can end this [%s]", len(stuck), stuck[0].TopFrame(), sc.Conf.String()),
				map[string]any{"scenario": scenReplay(sc, nil), "stacks": st})
		} else {
			c.Shard.Inconc(fmt.Sprintf("case %d: the virtual-time bubble froze and the real-time repetition showed no deadlock", c.Idx))
		}
		c.Shard.Eval("")
		return
	}
	if r.ConnErrC != nil || r.ConnErrS != nil {
		c.Shard.Inconc(fmt.Sprintf("handshake failed: %v / %v", r.ConnErrC, r.ConnErrS))
		return
	}
	keepalive := sc.Conf.PingC > 0 || sc.Conf.PingS > 0
	rep := func() map[string]any {
		m := scenReplay(sc, r)
		m["family"] = family
		m["resend_timeout_at_fault_end"] = fmt.Sprintf("client=%v server=%v", r.StateCTf.ResendTimeout, r.StateSTf.ResendTimeout)
		m["closed_by_itself"] = fmt.Sprintf("client=%v server=%v", r.DoneC, r.DoneS)
		m["final_window"] = fmt.Sprintf("client base=%d top=%d size=%d; server base=%d top=%d size=%d", r.StateC.Base, r.StateC.Top, r.StateC.Size, r.StateS.Base, r.StateS.Top, r.StateS.Size)
		return m
	}
	closed := r.DoneC >= 0 || r.DoneS >= 0
	if closed && !keepalive {
		c.Shard.Violate("closed-without-keepalive|"+family,
			fmt.Sprintf("keepalive is off and nobody called Close, yet an endpoint closed itself (client at %v, server at %v) [%s]", r.DoneC, r.DoneS, sc.Conf.String()), rep())
	}
	if !r.Completed {
		accA, delA, lastA := r.A.Snapshot()
		accB, delB, lastB := r.B.Snapshot()
		pending := (accA - delA) + (accB - delB)
		last := lastA
		if lastB > last {
			last = lastB
		}
		rtNow := r.StateC.ResendTimeout
		if r.StateS.ResendTimeout > rtNow {
			rtNow = r.StateS.ResendTimeout
		}
		window := 20 * rtNow
		// A sender that is blocked inside Send holds pending data too. To
		// tell "blocked for ever" from "slow" (a static resend timeout
		// below the link's round trip makes every packet take several
		// sync waits) the silence must then have lasted at least half an
		// hour of virtual time.
		blocked := r.BlockedSendA || r.BlockedSendB
		blockedOnly := false
		if pending == 0 && blocked {
			if window < 30*time.Minute {
				window = 30 * time.Minute
			}
			pending, blockedOnly = 1, true
		}
		switch {
		case closed && keepalive:
			c.Shard.Violate("peer-not-notified|"+family,
				fmt.Sprintf("one endpoint closed itself (client %v, server %v) but some Send/Recv caller of the other was still blocked at the horizon %v [%s]", r.DoneC, r.DoneS, r.Elapsed, sc.Conf.String()), rep())
		case !closed && pending > 0 && r.Elapsed-last > window:
			c.Shard.Violate("stall|"+family,
				fmt.Sprintf("silent stall: both ends open, %s (delivered/accepted a: %d/%d, b: %d/%d), last delivery at %v, horizon %v, resend timeout %v [%s]",
					map[bool]string{true: "a Send call is blocked and nothing has been delivered since", false: fmt.Sprintf("%d accepted message(s) undelivered", pending)}[blockedOnly], delA, accA, delB, accB, last, r.Elapsed, rtNow, sc.Conf.String()), rep())
		default:
			c.Shard.Inconc(fmt.Sprintf("case %d still progressing at the horizon (last delivery %v, horizon %v)", c.Idx, last, r.Elapsed))
		}
	} else if !closed && r.QuiesceFrom > 0 {
		// everything delivered and acknowledged, both open: quiescence
		if r.QuiesceData > 0 {
			c.Shard.Violate("retransmit-after-all-acked|"+family,
				fmt.Sprintf("%d non-ping DATA packet(s) were put on the wire during %v of observation after every packet had been acknowledged [%s]", r.QuiesceData, sc.Quiesce, sc.Conf.String()), rep())
		}
		c.Shard.Count("quiescence_observed", 1)
	} else if !closed && !r.Drained {
		c.Shard.Violate("queue-never-drains|"+family,
			fmt.Sprintf("every message was delivered and the link has been reliable for %v, but the send queues never became empty (client size=%d, server size=%d): packets are retransmitted or held for ever [%s]", sc.QuiesceWait, r.StateC.Size, r.StateS.Size, sc.Conf.String()), rep())
	}
	sig, faults := eng.TraceSig(r.LogC2S, r.LogS2C)
	_, delA, _ := r.A.Snapshot()
	_, delB, _ := r.B.Snapshot()
	c.Shard.Count("messages_delivered", int64(delA+delB))
	c.Shard.Count("family_"+family, 1)
	if closed {
		c.Shard.Count("keepalive_closures", 1)
	}
	if r.Completed {
		c.Shard.Count("completed", 1)
	}
	c.Shard.Max("max_resend_timeout_at_fault_end_ms", r.StateCTf.ResendTimeout.Milliseconds())
	if faults > 0 && delA+delB > 0 {
		c.Shard.Eval(family + "|" + sig)
	} else {
		c.Shard.Eval("")
	}
	if c.Idx%400 < 6 && c.Idx%400 >= 3 {
		c.Shard.Sample(rep())
	}
}
