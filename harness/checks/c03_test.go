package checks

import (
	"bytes"
	"context"
	"encoding/base64"
	"encoding/hex"
	"errors"
	"fmt"
	"net"
	"sync"
	"testing"
	"time"

	"verifharness/eng"
	"verifharness/mon"
	"verifharness/sim"

	"github.com/btcsuite/btcd/btcec/v2"
	"github.com/lightninglabs/lightning-node-connect/mailbox"
	"github.com/lightningnetwork/lnd/keychain"
)

func TestC03(t *testing.T) {
	mon.Main(t, mon.Check{
		ID:          "C03",
		Level:       "exploration",
		Rule:        "real noise Machines over an in-memory duplex that records every byte each party writes. Mismatch cases: first-time (XX) handshakes whose two passphrase entropies differ in exactly one bit (all 112 single-bit differences over the run) or are unrelated; repeat (KK) handshakes in which the responder's stored initiator key is wrong, the initiator's stored responder key is wrong, both are wrong, one side stored its own key, or the initiator presents the paired public key without holding the private key; for all initiator/responder version ranges in {0,1,2}^4 with min<=max and auth payload sizes {0,1,498,499,65535,1 MiB}. Oracle on a mismatch: the responder returns an error having written zero bytes, the initiator returns an error, neither machine holds traffic keys, the initiator's auth-data callback never ran and its ConnData holds no payload, no stored remote key changed, and the auth payload marker (raw, hex, base64) is absent from every byte written. Control: the same configuration with matching secrets must complete whenever the version ranges intersect (otherwise the monitor would pass vacuously). One case in eight is a sequence on the same ConnData objects with the application callbacks installed: a version-2 pairing, then (a) an initiator with another static key and the passphrase calls the paired responder, (b) the paired initiator calls a responder with another static key and the passphrase, for the version ranges of the slice, (c) the paired parties reconnect as control; oracle as above plus: stored keys and auth data of the paired parties unchanged. The paired sequences end with two more first-time clients served from the responder's passphrase buffer (all-zero passphrase: must be refused; right passphrase: control). A few cases per run go through NoiseGrpcConn.ClientHandshake/ServerHandshake over a transport that honours read deadlines and stays open (real time, 5 s each): a mismatch with a silently aborting responder, and a responder whose peer says nothing - neither call may report success. Non-trivial = a mismatch case whose matching control completed; distinct = (pattern, mismatch kind, version ranges, payload size). Credentials-object sequences at the NoiseGrpcConn level (16 per quick run): a pairing whose listener-side deadline reset fails after the noise handshake completed, then a different client with only the passphrase on the same credentials object (must be refused before the responder writes), then the paired client's reconnect as control. Forged key-based act one (16 per quick run): an impostor that knows only the two public static keys omits every DH result from the key derivation (hook; transcript and framing by the real code) and sends it to a paired responder whose signer works or fails: abort, nothing written, no keys.",
		Assumptions: []string{"the observable form of 'never released' is decided: bytes the responder wrote; no claim about computational secrecy", "scrypt cost lowered by the repository's own rpctest tag except for one production-parameter slice per run"},
		NCases: func(tier string) int {
			if tier == "thorough" {
				return 40000
			}
			return 448
		},
		MinEvals: 100,
		Run:      runC03,
	})
}

var c03Payloads = []int{0, 1, 498, 499, 65535, 1 << 20}

func authMarker(rng interface{ Read([]byte) (int, error) }, n int) []byte {
	b := make([]byte, n)
	rng.Read(b)
	// a recognisable, high-entropy marker at the start
	copy(b, []byte("AUTH-"))
	return b
}

func wireContains(hay [][]byte, needle []byte) string {
	if len(needle) < 8 {
		return ""
	}
	if len(needle) > 32 {
		needle = needle[:32]
	}
	forms := map[string][]byte{
		"raw":    needle,
		"hex":    []byte(hex.EncodeToString(needle)),
		"base64": []byte(base64.StdEncoding.EncodeToString(needle[:len(needle)/3*3])),
	}
	for _, w := range hay {
		for name, f := range forms {
			if bytes.Contains(w, f) {
				return name
			}
		}
	}
	return ""
}

// runC03Paired: the "stored at pairing time" half of the statement as a
// sequence on the same ConnData objects (with the application's callbacks
// installed, as every real client and server has them): a first pairing over
// the passphrase, then (a) somebody with another static key who knows the
// passphrase calls the paired responder, (b) the paired initiator calls a
// responder with another static key who knows the passphrase, for every
// version range of the second handshake, and (c) the two paired parties
// reconnect as a control.
func runC03Paired(c *mon.Case) {
	rng := c.Rng
	auth := authMarker(rng, []int{0, 1, 300, 499, 5000}[rng.Intn(5)]+16)
	evil := authMarker(rng, 64)
	keyC, keyS := eng.NewKey(rng), eng.NewKey(rng)
	pass := eng.Entropy(rng)
	// the pairing runs at version 2 (earlier versions exchange no keys)
	passS := append([]byte{}, pass...) // the responder application's passphrase buffer
	pair := eng.RunHandshake(eng.HSConfig{CMin: 2, CMax: 2, SMin: byte(rng.Intn(3)), SMax: 2,
		PassC: pass, PassS: passS, Auth: auth, KeyC: keyC, KeyS: keyS})
	rep := map[string]any{"kind": "paired-then-other-key"}
	if !pair.OK() {
		c.Shard.Violate("control-failed|pairing", fmt.Sprintf("first pairing with matching passphrases and maximum version 2 failed: client=%v server=%v", pair.C.Err, pair.S.Err), rep)
		return
	}
	pc, ps := pair.C, pair.S
	vr := [][2]byte{{0, 0}, {0, 1}, {1, 1}, {0, 2}, {1, 2}, {2, 2}}
	v1, v2 := vr[c.Idx%len(vr)], vr[(c.Idx/len(vr))%len(vr)]
	fail := func(key, desc string) {
		c.Shard.Violate("paired|"+key, fmt.Sprintf("%s (second handshake: initiator versions %v, responder versions %v)", desc, v1, v2), rep)
	}
	wrote := func(h *sim.Half) int {
		n := 0
		if h != nil {
			for _, w := range h.Written {
				n += len(w)
			}
		}
		return n
	}
	// (a) another key + the passphrase -> the paired responder
	a := eng.RunHandshake(eng.HSConfig{CMin: v1[0], CMax: v1[1], SMin: v2[0], SMax: v2[1],
		PassC: append([]byte{}, pass...), KeyC: eng.NewKey(rng), KeyS: keyS, ReuseS: ps})
	rep["a_errors"] = fmt.Sprintf("initiator new=%v hs=%v / responder new=%v hs=%v", a.C.NewErr, a.C.Err, a.S.NewErr, a.S.Err)
	if a.C.NewErr == nil && a.S.NewErr == nil {
		if a.S.Err == nil {
			fail("responder-completed", "a responder that stored its peer's static key at pairing time completed a handshake with an initiator that holds another static key and the pairing passphrase")
		}
		if n := wrote(a.S2C); n != 0 {
			fail("responder-wrote", fmt.Sprintf("the paired responder emitted %d bytes of handshake response to an initiator with another static key", n))
		}
		if a.C.Err == nil {
			fail("initiator-completed", "an initiator with another static key completed a handshake with the paired responder")
		}
		if a.C.AuthCBn != 0 || a.C.CD.AuthData() != nil {
			fail("auth-released", "an initiator with another static key obtained the auth payload from the paired responder")
		}
		all := append(append([][]byte{}, a.S2C.Written...), a.C2S.Written...)
		if form := wireContains(all, auth); form != "" {
			fail("auth-on-wire", "the auth payload marker appears on the wire in "+form+" form")
		}
	}
	if !keyEq(ps.CD.RemoteKey(), keyC.PubKey()) || ps.RemoteN != 0 {
		fail("remote-key-changed", fmt.Sprintf("the responder's stored remote key is not (any more) the one of the party it was paired with (callback ran %d more times)", ps.RemoteN))
	}
	// (b) the paired initiator -> another key + the passphrase
	b := eng.RunHandshake(eng.HSConfig{CMin: v1[0], CMax: v1[1], SMin: v2[0], SMax: v2[1],
		PassS: append([]byte{}, pass...), Auth: evil, KeyC: keyC, KeyS: eng.NewKey(rng), ReuseC: pc})
	rep["b_errors"] = fmt.Sprintf("initiator new=%v hs=%v / responder new=%v hs=%v", b.C.NewErr, b.C.Err, b.S.NewErr, b.S.Err)
	if b.C.NewErr == nil && b.S.NewErr == nil {
		if b.C.Err == nil {
			fail("initiator-completed", "an initiator that stored its peer's static key at pairing time completed a handshake with a responder that holds another static key and the pairing passphrase")
		}
		if b.S.Err == nil {
			fail("responder-completed", "a responder with another static key completed a handshake with the paired initiator")
		}
	}
	if pc.AuthCBn != 0 || !bytes.Equal(pc.CD.AuthData(), auth) {
		fail("auth-replaced", "the paired initiator accepted auth data from a responder with another static key")
	}
	if !keyEq(pc.CD.RemoteKey(), keyS.PubKey()) || pc.RemoteN != 0 {
		fail("remote-key-changed", "the initiator's stored remote key is not (any more) the one of the party it was paired with")
	}
	// (c) control: the paired parties reconnect
	ctl := eng.RunHandshake(eng.HSConfig{CMin: 0, CMax: 2, SMin: 0, SMax: 2, KeyC: keyC, KeyS: keyS, ReuseC: pc, ReuseS: ps})
	if !ctl.OK() {
		fail("control-failed", fmt.Sprintf("the two paired parties could not reconnect: client new=%v hs=%v server new=%v hs=%v", ctl.C.NewErr, ctl.C.Err, ctl.S.NewErr, ctl.S.Err))
	} else {
		c.Shard.Count("controls_completed", 1)
	}
	// (d) The responder application serves further first-time clients from
	// the same passphrase buffer (the TCP listener builds a ConnData from it
	// for every connection): somebody who does not know the passphrase - here
	// the all-zero one of the right length - must still be refused, and the
	// holder of the passphrase still be served.
	zero := make([]byte, len(pass))
	d := eng.RunHandshake(eng.HSConfig{CMin: 0, CMax: 2, SMin: 0, SMax: 2, PassC: zero, PassS: passS, Auth: auth, KeyC: eng.NewKey(rng), KeyS: keyS})
	if d.C.NewErr == nil && d.S.NewErr == nil {
		if d.S.Err == nil || d.C.Err == nil || wrote(d.S2C) != 0 || d.C.CD.AuthData() != nil {
			fail("later-client-without-passphrase", fmt.Sprintf("after the pairing, a first-time client presenting the all-zero passphrase to a responder built from the same passphrase buffer: responder result %v (wrote %d bytes), initiator result %v, initiator holds %d bytes of auth data", d.S.Err, wrote(d.S2C), d.C.Err, len(d.C.CD.AuthData())))
		}
	}
	e := eng.RunHandshake(eng.HSConfig{CMin: 0, CMax: 2, SMin: 0, SMax: 2, PassC: append([]byte{}, pass...), PassS: passS, Auth: auth, KeyC: eng.NewKey(rng), KeyS: keyS})
	if !e.OK() {
		fail("control-failed|later-client", fmt.Sprintf("after the pairing, another first-time client with the right passphrase is refused by a responder built from the same passphrase buffer: initiator %v, responder %v", e.C.Err, e.S.Err))
	}
	c.Shard.Count("paired_then_other_key_sequences", 1)
	c.Shard.Count("mismatch_handshakes", 2)
	c.Shard.Eval(fmt.Sprintf("paired|%v|%v|%d", v1, v2, len(auth)))
	if c.Idx%80 == 5 {
		c.Shard.Sample(rep)
	}
}

// deadlineProxy is a ProxyConn over the in-memory duplex that honours read
// deadlines and is left open when a handshake fails.
type deadlineProxy struct{ fakeProxy }

func (d *deadlineProxy) SetReadDeadline(t time.Time) error { d.In.SetReadDeadline(t); return nil }
func (d *deadlineProxy) SetDeadline(t time.Time) error     { d.In.SetReadDeadline(t); return nil }

// runC03GrpcOpenTransport: the mismatch at the level applications use
// (NoiseGrpcConn.ClientHandshake / ServerHandshake) over a transport that stays
// open when the responder aborts silently: the initiator then runs into the
// 5 s handshake read deadline, and a responder whose peer sends nothing does
// too. Neither may report a completed handshake. Real time (5 s per case).
func runC03GrpcOpenTransport(c *mon.Case) {
	rng := c.Rng
	pass := eng.Entropy(rng)
	other := eng.Entropy(rng)
	auth := authMarker(rng, 64)
	cp := eng.NewMboxParty(eng.NewKey(rng), nil, other, nil, 0, 2)
	sp := eng.NewMboxParty(eng.NewKey(rng), nil, pass, auth, 0, 2)
	da, db, _, b2a := sim.NewDuplexPair()
	silent := c.Idx%2 == 0 // the initiator never says anything
	var wg sync.WaitGroup
	var cconn, sconn net.Conn
	var cerr, serr error
	cdone := false
	wg.Add(1)
	go func() { defer wg.Done(); sconn, _, serr = sp.Noise.ServerHandshake(&deadlineProxy{fakeProxy{db}}) }()
	if !silent {
		wg.Add(1)
		go func() {
			defer wg.Done()
			cconn, _, cerr = cp.Noise.ClientHandshake(context.Background(), "", &deadlineProxy{fakeProxy{da}})
			cdone = true
		}()
	}
	wg.Wait()
	rep := map[string]any{"kind": "grpc-open-transport", "silent_initiator": silent, "responder_err": fmt.Sprint(serr), "initiator_err": fmt.Sprint(cerr)}
	written := 0
	for _, w := range b2a.Written {
		written += len(w)
	}
	if serr == nil {
		c.Shard.Violate("grpc|responder-completed", fmt.Sprintf("ServerHandshake returned no error (connection %v) although the initiator %s", sconn != nil, map[bool]string{true: "never sent anything", false: "used another passphrase"}[silent]), rep)
	}
	if written != 0 {
		c.Shard.Violate("grpc|responder-wrote", fmt.Sprintf("the responder emitted %d bytes of handshake response", written), rep)
	}
	if cdone && cerr == nil {
		c.Shard.Violate("grpc|initiator-completed", fmt.Sprintf("ClientHandshake returned no error (connection %v) although the passphrases differ and the responder never answered", cconn != nil), rep)
	}
	if cp.CD.AuthData() != nil {
		c.Shard.Violate("grpc|auth-released", "the initiator holds auth data after a failed handshake", rep)
	}
	da.In.Close()
	da.Out.Close()
	c.Shard.Count("mismatch_handshakes", 1)
	c.Shard.Count("grpc_open_transport_handshakes", 1)
	c.Shard.Eval(fmt.Sprintf("grpc-open|%v", silent))
}

// flakyDeadlineProxy fails its failAt-th SetReadDeadline call (1-based).
type flakyDeadlineProxy struct {
	fakeProxy
	calls, failAt int
}

func (d *flakyDeadlineProxy) SetReadDeadline(t time.Time) error {
	d.calls++
	if d.calls == d.failAt {
		return errors.New("set read deadline: use of closed network connection (injected)")
	}
	return nil
}

// runC03GrpcSequence: "each side's static key is the one the other side stored
// at pairing time" on the objects applications hold for a whole session - one
// NoiseGrpcConn credentials object per party, serving connection after
// connection. (1) The pairing. In two thirds of the cases the listener's
// transport fails the call that clears the handshake read deadline, i.e. after
// the noise handshake itself has completed and the initiator's key has been
// stored: ServerHandshake reports an error for that connection. (2) A different
// client that holds only the passphrase connects to the same credentials
// object: it must be refused before the responder writes anything. (3) The
// paired client reconnects: control, must complete with the key-based pattern.
func runC03GrpcSequence(c *mon.Case) {
	rng := c.Rng
	pass := eng.Entropy(rng)
	auth := authMarker(rng, 64)
	keyA, keyS, keyB := eng.NewKey(rng), eng.NewKey(rng), eng.NewKey(rng)
	cp := eng.NewMboxParty(keyA, nil, pass, nil, 0, 2)
	sp := eng.NewMboxParty(keyS, nil, pass, auth, 0, 2)
	failAt := []int{0, 2, 2}[c.Idx/56%3] // the second call is the one that clears the deadline
	hs := func(cl, sv *eng.MboxParty, sFail int) (cerr, serr error, written int) {
		da, db, _, b2a := sim.NewDuplexPair()
		var wg sync.WaitGroup
		wg.Add(2)
		go func() {
			defer wg.Done()
			_, _, serr = sv.Noise.ServerHandshake(&flakyDeadlineProxy{fakeProxy: fakeProxy{db}, failAt: sFail})
			if serr != nil {
				db.In.Close()
				db.Out.Close()
			}
		}()
		go func() {
			defer wg.Done()
			_, _, cerr = cl.Noise.ClientHandshake(context.Background(), "", &fakeProxy{da})
			if cerr != nil {
				da.In.Close()
				da.Out.Close()
			}
		}()
		wg.Wait()
		for _, w := range b2a.Written {
			written += len(w)
		}
		da.In.Close()
		da.Out.Close()
		return
	}
	rep := map[string]any{"kind": "grpc-sequence", "listener_deadline_reset_fails": failAt != 0}
	cerr, serr, _ := hs(cp, sp, failAt)
	rep["pairing"] = fmt.Sprintf("client=%v server=%v", cerr, serr)
	if cerr != nil || (failAt == 0 && serr != nil) {
		c.Shard.Violate("grpc-sequence|control-failed", fmt.Sprintf("pairing with the same passphrase did not complete: client=%v server=%v", cerr, serr), rep)
		return
	}
	if !keyEq(sp.CD.RemoteKey(), keyA.PubKey()) || !keyEq(cp.CD.RemoteKey(), keyS.PubKey()) {
		c.Shard.Inconc("pairing did not store the keys (version below 2?)")
		return
	}
	// (2) the intruder
	ip := eng.NewMboxParty(keyB, nil, pass, nil, 0, 2)
	icerr, iserr, iw := hs(ip, sp, 0)
	rep["intruder"] = fmt.Sprintf("client=%v server=%v responder_bytes=%d", icerr, iserr, iw)
	if iserr == nil {
		c.Shard.Violate("grpc-sequence|responder-completed", "a paired listener completed a handshake with a different client that presented only the passphrase (same credentials object, after the pairing connection)", rep)
	}
	if iw != 0 {
		c.Shard.Violate("grpc-sequence|responder-wrote", fmt.Sprintf("a paired listener emitted %d bytes of handshake response to a different client that presented only the passphrase", iw), rep)
	}
	if icerr == nil || ip.CD.AuthData() != nil {
		c.Shard.Violate("grpc-sequence|initiator-completed", "a client that holds only the passphrase completed a handshake with a paired listener or holds its auth payload", rep)
	}
	if !keyEq(sp.CD.RemoteKey(), keyA.PubKey()) {
		c.Shard.Violate("grpc-sequence|remote-key-changed", "the key the listener stored at pairing time was replaced", rep)
	}
	// (3) control: the paired client reconnects
	rcerr, rserr, _ := hs(cp, sp, 0)
	rep["reconnect"] = fmt.Sprintf("client=%v server=%v", rcerr, rserr)
	if rcerr != nil || rserr != nil {
		c.Shard.Violate("grpc-sequence|control-failed", fmt.Sprintf("the paired client could not reconnect: client=%v server=%v", rcerr, rserr), rep)
	}
	c.Shard.Count("mismatch_handshakes", 1)
	c.Shard.Count("controls_completed", 2)
	c.Shard.Count("grpc_credentials_sequences", 1)
	c.Shard.Eval(fmt.Sprintf("grpc-seq|%d", failAt))
	if c.Idx%112 == 17 {
		c.Shard.Sample(rep)
	}
}

// runC03ForgedKK: an impostor that knows only the two public static keys of a
// paired couple builds act one of the key-based pattern with every
// Diffie-Hellman result left out of the key derivation (hook
// VerifForgeKKActOneNoDH; transcript and framing by the real code) and sends it
// to the paired responder - whose own static-key operations work, or fail (a
// locked wallet, a remote signer that is down). The responder must abort
// without writing anything and without session keys in either case.
func runC03ForgedKK(c *mon.Case) {
	rng := c.Rng
	keyA, keyS := eng.NewKey(rng), eng.NewKey(rng)
	auth := authMarker(rng, 80)
	flaky := c.Idx/56%2 == 0
	var signer keychain.SingleKeyECDH = keyS
	if flaky {
		signer = &eng.FlakySigner{PrivKeyECDH: keyS, Fail: true}
	}
	cd := mailbox.NewConnData(signer, keyA.PubKey(), eng.Entropy(rng), auth, nil, nil)
	m, err := mailbox.NewBrontideMachine(&mailbox.BrontideMachineConfig{
		Initiator: false, HandshakePattern: cd.HandshakePattern(), ConnData: cd,
		MinHandshakeVersion: 2, MaxHandshakeVersion: 2,
	})
	if err != nil {
		c.Shard.Inconc("responder machine: " + err.Error())
		return
	}
	act, err := mailbox.VerifForgeKKActOneNoDH(2, keyA.PubKey(), keyS.PubKey())
	if err != nil {
		c.Shard.Inconc("forging act one: " + err.Error())
		return
	}
	in, out := sim.NewHalf(), sim.NewHalf()
	in.Inject(act)
	in.Close()
	herr := m.DoHandshake(&sim.Duplex{In: in, Out: out})
	written := 0
	for _, w := range out.Written {
		written += len(w)
	}
	snap := m.VerifSnapshot()
	rep := map[string]any{"kind": "forged-kk-act-one", "responder_signer_fails": flaky, "responder_err": fmt.Sprint(herr), "responder_bytes": written}
	if herr == nil {
		c.Shard.Violate("forged|responder-completed", fmt.Sprintf("a paired responder (signer failing: %v) completed the key-based handshake with a peer that holds neither static private key", flaky), rep)
	}
	if written != 0 {
		c.Shard.Violate("forged|responder-wrote", fmt.Sprintf("a paired responder (signer failing: %v) answered a forged act one with %d bytes", flaky, written), rep)
	}
	if snap.HaveSendCipher || snap.HaveRecvCipher {
		c.Shard.Violate("forged|responder-has-keys", "the responder holds session keys after a forged act one", rep)
	}
	if w := wireContains(out.Written, auth); w != "" {
		c.Shard.Violate("forged|auth-on-wire", "the auth payload appears ("+w+") in what the responder wrote", rep)
	}
	// control: the paired client itself completes with a working responder
	if !flaky {
		res := eng.RunHandshake(eng.HSConfig{KK: true, CMin: 2, CMax: 2, SMin: 2, SMax: 2, PassC: eng.Entropy(rng), PassS: eng.Entropy(rng), Auth: auth, KeyC: keyA, KeyS: keyS})
		if !res.OK() {
			c.Shard.Violate("forged|control-failed", fmt.Sprintf("the paired client could not complete the key-based handshake: %v / %v", res.C.Err, res.S.Err), rep)
		} else {
			c.Shard.Count("controls_completed", 1)
		}
	}
	c.Shard.Count("mismatch_handshakes", 1)
	c.Shard.Count("forged_act_one_cases", 1)
	c.Shard.Eval(fmt.Sprintf("forged-kk|%v", flaky))
	if c.Idx%112 == 25 {
		c.Shard.Sample(rep)
	}
}

func runC03(c *mon.Case) {
	if c.Idx%56 == 25 || c.Idx%56 == 41 {
		runC03ForgedKK(c)
		return
	}
	if c.Idx%56 == 9 {
		runC03GrpcOpenTransport(c)
		return
	}
	if c.Idx%56 == 17 || c.Idx%56 == 33 {
		runC03GrpcSequence(c)
		return
	}
	if c.Idx%8 == 5 {
		runC03Paired(c)
		return
	}
	rng := c.Rng
	// version ranges
	var ranges [][4]byte
	for a := byte(0); a <= 2; a++ {
		for b := a; b <= 2; b++ {
			for x := byte(0); x <= 2; x++ {
				for y := x; y <= 2; y++ {
					ranges = append(ranges, [4]byte{a, b, x, y})
				}
			}
		}
	}
	vr := ranges[c.Idx%len(ranges)]
	kk := c.Idx%4 == 3
	psize := c03Payloads[(c.Idx/4)%len(c03Payloads)]
	if psize > 65535 && c.Idx%16 != 0 {
		psize = 499
	}
	auth := authMarker(rng, psize)
	keyC, keyS := eng.NewKey(rng), eng.NewKey(rng)
	pass := eng.Entropy(rng)
	base := eng.HSConfig{KK: kk, CMin: vr[0], CMax: vr[1], SMin: vr[2], SMax: vr[3], PassC: pass, PassS: pass, Auth: auth, KeyC: keyC, KeyS: keyS} // both parties share one passphrase buffer
	if kk {
		// the key-based pattern needs version 2 on both sides
		base.CMax, base.SMax = 2, 2
	}
	// A party's ConnData may already hold a remote key while its Machine
	// is built for the passphrase pattern (paired by a concurrent handshake
	// after the pattern was looked up): nothing about the passphrase check
	// may depend on that.
	stale := ""
	if !kk && c.Idx%5 == 2 {
		k := []*btcec.PublicKey{keyC.PubKey(), keyS.PubKey(), eng.NewKey(rng).PubKey()}[rng.Intn(3)]
		switch rng.Intn(3) {
		case 0:
			base.StaleRemoteS, stale = k, "responder"
		case 1:
			base.StaleRemoteC, stale = k, "initiator"
		default:
			base.StaleRemoteS, base.StaleRemoteC, stale = k, k, "both"
		}
	}
	// control: matching secrets
	ctl := eng.RunHandshake(base)
	intersect := base.CMax >= base.SMin && base.SMax >= base.CMin
	if kk {
		intersect = true
	}
	ctlOK := ctl.OK()
	rep := map[string]any{"kk": kk, "conndata_already_holds_a_remote_key": stale, "versions": fmt.Sprintf("client [%d,%d] server [%d,%d]", base.CMin, base.CMax, base.SMin, base.SMax), "auth_len": psize}
	if !ctlOK && intersect && ctl.C.NewErr == nil && ctl.S.NewErr == nil {
		// Which combinations complete is not part of C03, except that
		// equal ranges must: otherwise everything "fails" trivially.
		if base.CMin == base.SMin && base.CMax == base.SMax && !(base.SMax == 0 && psize > 498) {
			c.Shard.Violate("control-failed", fmt.Sprintf("matching secrets and equal version ranges, yet the handshake failed: client=%v server=%v", ctl.C.Err, ctl.S.Err), rep)
		}
	}
	if ctlOK {
		c.Shard.Count("controls_completed", 1)
	}

	// the mismatch
	mis := base
	kind := ""
	if !kk {
		p2 := append([]byte{}, pass...)
		switch c.Idx % 3 {
		case 0, 1:
			bit := (c.Idx / 3) % 112
			p2[bit/8] ^= 1 << (bit % 8)
			kind = fmt.Sprintf("passphrase bit %d", bit)
		default:
			p2 = eng.Entropy(rng)
			kind = "unrelated passphrase"
		}
		if c.Idx%2 == 0 {
			mis.PassC = p2
		} else {
			mis.PassS = p2
		}
		// Rotation in place: the buffer both parties used in the control
		// handshake is overwritten with the new passphrase and handed to
		// one party again, the other keeps (a copy of) the old one.
		if c.Idx%7 == 3 {
			orig := append([]byte{}, pass...)
			copy(pass, p2)
			mis.PassC, mis.PassS = pass, orig
			if c.Idx%2 == 1 {
				mis.PassC, mis.PassS = orig, pass
			}
			kind += ", rotated in place"
		}
	} else {
		other := eng.NewKey(rng).PubKey()
		switch (c.Idx / 4) % 6 {
		case 5:
			// an impostor presents the paired public key but does not
			// hold its private key
			mis.KeyCOverride = &eng.Impostor{Claimed: keyC.PubKey(), Own: eng.NewKey(rng)}
			kind = "initiator claims the paired public key without holding the private key"
		case 0:
			mis.SExpect = other
			kind = "responder stored a different initiator key"
		case 1:
			mis.CExpect = other
			kind = "initiator stored a different responder key"
		case 2:
			mis.SExpect, mis.CExpect = other, eng.NewKey(rng).PubKey()
			kind = "both stored wrong keys"
		case 3:
			mis.SExpect = keyS.PubKey()
			kind = "responder stored its own key as the initiator's"
		case 4:
			mis.CExpect = keyC.PubKey()
			kind = "initiator stored its own key as the responder's"
		}
	}
	rep["mismatch"] = kind
	r := eng.RunHandshake(mis)
	if r.C.NewErr != nil || r.S.NewErr != nil {
		c.Shard.Eval("")
		return
	}
	fail := func(key, desc string) {
		c.Shard.Violate(key, fmt.Sprintf("%s [%s, %s, auth %d bytes, %s]: %s", map[bool]string{true: "KK", false: "XX"}[kk], kind, rep["versions"], psize, key, desc), rep)
	}
	written := 0
	for _, w := range r.S2C.Written {
		written += len(w)
	}
	if r.S.Err == nil {
		fail("responder-completed", "the responder's handshake returned nil although the secrets do not match")
	}
	if written != 0 {
		fail("responder-wrote", fmt.Sprintf("the responder emitted %d bytes of handshake response before aborting", written))
	}
	if r.C.Err == nil {
		fail("initiator-completed", "the initiator's handshake returned nil although the secrets do not match")
	}
	cs, ss := r.C.M.VerifSnapshot(), r.S.M.VerifSnapshot()
	if cs.HaveSendCipher || cs.HaveRecvCipher || ss.HaveSendCipher || ss.HaveRecvCipher {
		fail("session-keys", fmt.Sprintf("a party ended up with traffic keys (client send/recv=%v/%v, server=%v/%v)", cs.HaveSendCipher, cs.HaveRecvCipher, ss.HaveSendCipher, ss.HaveRecvCipher))
	}
	if r.C.AuthCBn != 0 || r.C.CD.AuthData() != nil || len(cs.ReceivedPayload) != 0 {
		fail("auth-released", fmt.Sprintf("the initiator obtained auth data (callback ran %d times, ConnData holds %d bytes, machine holds %d bytes)", r.C.AuthCBn, len(r.C.CD.AuthData()), len(cs.ReceivedPayload)))
	}
	if r.C.RemoteN != 0 || r.S.RemoteN != 0 {
		fail("remote-key-stored", fmt.Sprintf("a remote static key was stored (client %d, server %d callbacks)", r.C.RemoteN, r.S.RemoteN))
	}
	var wantC, wantS *btcec.PublicKey
	if kk {
		wantC, wantS = keyS.PubKey(), keyC.PubKey()
		if mis.CExpect != nil {
			wantC = mis.CExpect
		}
		if mis.SExpect != nil {
			wantS = mis.SExpect
		}
	}
	if !kk {
		wantC, wantS = mis.StaleRemoteC, mis.StaleRemoteS
	}
	if !keyEq(r.C.CD.RemoteKey(), wantC) || !keyEq(r.S.CD.RemoteKey(), wantS) {
		fail("remote-key-changed", "a stored remote key changed although the handshake failed")
	}
	all := append(append([][]byte{}, r.S2C.Written...), r.C2S.Written...)
	if form := wireContains(all, auth); form != "" {
		fail("auth-on-wire", "the auth payload marker appears on the wire in "+form+" form")
	}
	c.Shard.Count("mismatch_handshakes", 1)
	if ctlOK {
		c.Shard.Eval(fmt.Sprintf("%v|%s|%v|%d|stale=%s", kk, kind, vr, psize, stale))
	} else {
		c.Shard.Eval("")
	}
	if c.Idx%80 == 0 {
		rep["responder_err"], rep["initiator_err"] = fmt.Sprint(r.S.Err), fmt.Sprint(r.C.Err)
		rep["responder_bytes_written"] = written
		c.Shard.Sample(rep)
	}
}

func keyEq(a, b *btcec.PublicKey) bool {
	if a == nil || b == nil {
		return a == b
	}
	return a.IsEqual(b)
}
