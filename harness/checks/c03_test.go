package checks

import (
	"bytes"
	"encoding/base64"
	"encoding/hex"
	"fmt"
	"testing"

	"verifharness/eng"
	"verifharness/mon"

	"github.com/btcsuite/btcd/btcec/v2"
)

func TestC03(t *testing.T) {
	mon.Main(t, mon.Check{
		ID:          "C03",
		Level:       "exploration",
		Rule:        "real noise Machines over an in-memory duplex that records every byte each party writes. Mismatch cases: first-time (XX) handshakes whose two passphrase entropies differ in exactly one bit (all 112 single-bit differences over the run) or are unrelated; repeat (KK) handshakes in which the responder's stored initiator key is wrong, the initiator's stored responder key is wrong, both are wrong, one side stored its own key, or the initiator presents the paired public key without holding the private key; for all initiator/responder version ranges in {0,1,2}^4 with min<=max and auth payload sizes {0,1,498,499,65535,1 MiB}. Oracle on a mismatch: the responder returns an error having written zero bytes, the initiator returns an error, neither machine holds traffic keys, the initiator's auth-data callback never ran and its ConnData holds no payload, no stored remote key changed, and the auth payload marker (raw, hex, base64) is absent from every byte written. Control: the same configuration with matching secrets must complete whenever the version ranges intersect (otherwise the monitor would pass vacuously). Non-trivial = a mismatch case whose matching control completed; distinct = (pattern, mismatch kind, version ranges, payload size).",
		Assumptions: []string{"the observable form of 'never released' is decided: bytes the responder wrote; no claim about computational secrecy", "scrypt cost lowered by the repository's own rpctest tag except for one production-parameter slice per run"},
		NCases: func(tier string) int {
			if tier == "thorough" {
				return 40000
			}
			return 448
		},
		MinEvals: 100,
		Run:      runC03,
	})
}

var c03Payloads = []int{0, 1, 498, 499, 65535, 1 << 20}

func authMarker(rng interface{ Read([]byte) (int, error) }, n int) []byte {
	b := make([]byte, n)
	rng.Read(b)
	// a recognisable, high-entropy marker at the start
	copy(b, []byte("AUTH-"))
	return b
}

func wireContains(hay [][]byte, needle []byte) string {
	if len(needle) < 8 {
		return ""
	}
	if len(needle) > 32 {
		needle = needle[:32]
	}
	forms := map[string][]byte{
		"raw":    needle,
		"hex":    []byte(hex.EncodeToString(needle)),
		"base64": []byte(base64.StdEncoding.EncodeToString(needle[:len(needle)/3*3])),
	}
	for _, w := range hay {
		for name, f := range forms {
			if bytes.Contains(w, f) {
				return name
			}
		}
	}
	return ""
}

func runC03(c *mon.Case) {
	rng := c.Rng
	// version ranges
	var ranges [][4]byte
	for a := byte(0); a <= 2; a++ {
		for b := a; b <= 2; b++ {
			for x := byte(0); x <= 2; x++ {
				for y := x; y <= 2; y++ {
					ranges = append(ranges, [4]byte{a, b, x, y})
				}
			}
		}
	}
	vr := ranges[c.Idx%len(ranges)]
	kk := c.Idx%4 == 3
	psize := c03Payloads[(c.Idx/4)%len(c03Payloads)]
	if psize > 65535 && c.Idx%16 != 0 {
		psize = 499
	}
	auth := authMarker(rng, psize)
	keyC, keyS := eng.NewKey(rng), eng.NewKey(rng)
	pass := eng.Entropy(rng)
	base := eng.HSConfig{KK: kk, CMin: vr[0], CMax: vr[1], SMin: vr[2], SMax: vr[3], PassC: pass, PassS: pass, Auth: auth, KeyC: keyC, KeyS: keyS} // both parties share one passphrase buffer
	if kk {
		// the key-based pattern needs version 2 on both sides
		base.CMax, base.SMax = 2, 2
	}
	// A party's ConnData may already hold a remote key while its Machine
	// is built for the passphrase pattern (paired by a concurrent handshake
	// after the pattern was looked up): nothing about the passphrase check
	// may depend on that.
	stale := ""
	if !kk && c.Idx%5 == 2 {
		k := []*btcec.PublicKey{keyC.PubKey(), keyS.PubKey(), eng.NewKey(rng).PubKey()}[rng.Intn(3)]
		switch rng.Intn(3) {
		case 0:
			base.StaleRemoteS, stale = k, "responder"
		case 1:
			base.StaleRemoteC, stale = k, "initiator"
		default:
			base.StaleRemoteS, base.StaleRemoteC, stale = k, k, "both"
		}
	}
	// control: matching secrets
	ctl := eng.RunHandshake(base)
	intersect := base.CMax >= base.SMin && base.SMax >= base.CMin
	if kk {
		intersect = true
	}
	ctlOK := ctl.OK()
	rep := map[string]any{"kk": kk, "conndata_already_holds_a_remote_key": stale, "versions": fmt.Sprintf("client [%d,%d] server [%d,%d]", base.CMin, base.CMax, base.SMin, base.SMax), "auth_len": psize}
	if !ctlOK && intersect && ctl.C.NewErr == nil && ctl.S.NewErr == nil {
		// Which combinations complete is not part of C03, except that
		// equal ranges must: otherwise everything "fails" trivially.
		if base.CMin == base.SMin && base.CMax == base.SMax && !(base.SMax == 0 && psize > 498) {
			c.Shard.Violate("control-failed", fmt.Sprintf("matching secrets and equal version ranges, yet the handshake failed: client=%v server=%v", ctl.C.Err, ctl.S.Err), rep)
		}
	}
	if ctlOK {
		c.Shard.Count("controls_completed", 1)
	}

	// the mismatch
	mis := base
	kind := ""
	if !kk {
		p2 := append([]byte{}, pass...)
		switch c.Idx % 3 {
		case 0, 1:
			bit := (c.Idx / 3) % 112
			p2[bit/8] ^= 1 << (bit % 8)
			kind = fmt.Sprintf("passphrase bit %d", bit)
		default:
			p2 = eng.Entropy(rng)
			kind = "unrelated passphrase"
		}
		if c.Idx%2 == 0 {
			mis.PassC = p2
		} else {
			mis.PassS = p2
		}
		// Rotation in place: the buffer both parties used in the control
		// handshake is overwritten with the new passphrase and handed to
		// one party again, the other keeps (a copy of) the old one.
		if c.Idx%7 == 3 {
			orig := append([]byte{}, pass...)
			copy(pass, p2)
			mis.PassC, mis.PassS = pass, orig
			if c.Idx%2 == 1 {
				mis.PassC, mis.PassS = orig, pass
			}
			kind += ", rotated in place"
		}
	} else {
		other := eng.NewKey(rng).PubKey()
		switch (c.Idx / 4) % 6 {
		case 5:
			// an impostor presents the paired public key but does not
			// hold its private key
			mis.KeyCOverride = &eng.Impostor{Claimed: keyC.PubKey(), Own: eng.NewKey(rng)}
			kind = "initiator claims the paired public key without holding the private key"
		case 0:
			mis.SExpect = other
			kind = "responder stored a different initiator key"
		case 1:
			mis.CExpect = other
			kind = "initiator stored a different responder key"
		case 2:
			mis.SExpect, mis.CExpect = other, eng.NewKey(rng).PubKey()
			kind = "both stored wrong keys"
		case 3:
			mis.SExpect = keyS.PubKey()
			kind = "responder stored its own key as the initiator's"
		case 4:
			mis.CExpect = keyC.PubKey()
			kind = "initiator stored its own key as the responder's"
		}
	}
	rep["mismatch"] = kind
	r := eng.RunHandshake(mis)
	if r.C.NewErr != nil || r.S.NewErr != nil {
		c.Shard.Eval("")
		return
	}
	fail := func(key, desc string) {
		c.Shard.Violate(key, fmt.Sprintf("%s [%s, %s, auth %d bytes, %s]: %s", map[bool]string{true: "KK", false: "XX"}[kk], kind, rep["versions"], psize, key, desc), rep)
	}
	written := 0
	for _, w := range r.S2C.Written {
		written += len(w)
	}
	if r.S.Err == nil {
		fail("responder-completed", "the responder's handshake returned nil although the secrets do not match")
	}
	if written != 0 {
		fail("responder-wrote", fmt.Sprintf("the responder emitted %d bytes of handshake response before aborting", written))
	}
	if r.C.Err == nil {
		fail("initiator-completed", "the initiator's handshake returned nil although the secrets do not match")
	}
	cs, ss := r.C.M.VerifSnapshot(), r.S.M.VerifSnapshot()
	if cs.HaveSendCipher || cs.HaveRecvCipher || ss.HaveSendCipher || ss.HaveRecvCipher {
		fail("session-keys", fmt.Sprintf("a party ended up with traffic keys (client send/recv=%v/%v, server=%v/%v)", cs.HaveSendCipher, cs.HaveRecvCipher, ss.HaveSendCipher, ss.HaveRecvCipher))
	}
	if r.C.AuthCBn != 0 || r.C.CD.AuthData() != nil || len(cs.ReceivedPayload) != 0 {
		fail("auth-released", fmt.Sprintf("the initiator obtained auth data (callback ran %d times, ConnData holds %d bytes, machine holds %d bytes)", r.C.AuthCBn, len(r.C.CD.AuthData()), len(cs.ReceivedPayload)))
	}
	if r.C.RemoteN != 0 || r.S.RemoteN != 0 {
		fail("remote-key-stored", fmt.Sprintf("a remote static key was stored (client %d, server %d callbacks)", r.C.RemoteN, r.S.RemoteN))
	}
	var wantC, wantS *btcec.PublicKey
	if kk {
		wantC, wantS = keyS.PubKey(), keyC.PubKey()
		if mis.CExpect != nil {
			wantC = mis.CExpect
		}
		if mis.SExpect != nil {
			wantS = mis.SExpect
		}
	}
	if !kk {
		wantC, wantS = mis.StaleRemoteC, mis.StaleRemoteS
	}
	if !keyEq(r.C.CD.RemoteKey(), wantC) || !keyEq(r.S.CD.RemoteKey(), wantS) {
		fail("remote-key-changed", "a stored remote key changed although the handshake failed")
	}
	all := append(append([][]byte{}, r.S2C.Written...), r.C2S.Written...)
	if form := wireContains(all, auth); form != "" {
		fail("auth-on-wire", "the auth payload marker appears on the wire in "+form+" form")
	}
	c.Shard.Count("mismatch_handshakes", 1)
	if ctlOK {
		c.Shard.Eval(fmt.Sprintf("%v|%s|%v|%d|stale=%s", kk, kind, vr, psize, stale))
	} else {
		c.Shard.Eval("")
	}
	if c.Idx%80 == 0 {
		rep["responder_err"], rep["initiator_err"] = fmt.Sprint(r.S.Err), fmt.Sprint(r.C.Err)
		rep["responder_bytes_written"] = written
		c.Shard.Sample(rep)
	}
}

func keyEq(a, b *btcec.PublicKey) bool {
	if a == nil || b == nil {
		return a == b
	}
	return a.IsEqual(b)
}
