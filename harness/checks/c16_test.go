package checks

import (
	"bytes"
	"errors"
	"fmt"
	"io"
	"math/rand"
	"testing"

	"verifharness/eng"
	"verifharness/mon"

	"github.com/lightninglabs/lightning-node-connect/mailbox"
)

func TestC16(t *testing.T) {
	mon.Main(t, mon.Check{
		ID:          "C16",
		Level:       "exploration",
		Rule:        "(R) read fragmentation: the same handshake (same static keys, passphrase, deterministic ephemeral keys, version ranges, auth payload 0..1 MiB) is run unfragmented and over streams whose every Read returns at most k bytes, k in {1,2,3,7,16,33,100} or a PRNG sequence, for both roles, XX and KK; afterwards records of sizes {0,1,15,16,17,100,65535} are read through the same fragmenting stream (in a third of the cases the stream reports io.EOF together with its last bytes, as an io.Reader may). Oracle: identical outcome (success, negotiated version, payload, traffic keys, plaintexts). (P) pipelining: the party that sends the last act writes its first record right behind it and both arrive in one chunk (read caps 0/1/7/64/100/4096); the record must be read back. (W) partial writes: a writer that accepts bytes only up to the next cut of a partition and then returns a timeout error; for payload sizes {0,1,15,16,17,100} all two-way and all three-way splits of the record's 18+len+16 wire bytes, PRNG finer partitions for 1000 and 65535 bytes; Flush is repeated until it succeeds and WriteMessage is attempted in between; for every other partition a record of the peer is read on the same Machine after the first interruption (full duplex). Oracle: the bytes emitted, concatenated, equal the single-shot encoding produced by a bit-identical twin session; the counts returned by the Flush calls add up to len(plaintext); every WriteMessage between the first and the last Flush returns ErrMessageNotFlushed and changes nothing; the peer decrypts the plaintext. Non-trivial = every case (each fragments); distinct = (kind, sizes, fragmentation).",
		Assumptions: []string{"twin sessions are made bit-identical through the EphemeralGen field of BrontideMachineConfig"},
		Exhaustive:  false,
		NCases: func(tier string) int {
			if tier == "thorough" {
				return 30000
			}
			return 300
		},
		MinEvals: 50,
		Run:      runC16,
	})
}

// runC16Pipelined: the party that sends the last act writes a record right
// behind it and the transport delivers both in one chunk.
func runC16Pipelined(c *mon.Case) {
	rng := c.Rng
	for trial := 0; trial < 6; trial++ {
		kk := rng.Intn(2) == 0
		pass := eng.Entropy(rng)
		vmax := byte(rng.Intn(3))
		cfg := eng.HSConfig{KK: kk, CMin: 0, CMax: 2, SMin: 0, SMax: vmax, PassC: pass, PassS: pass, Auth: authMarker(rng, rng.Intn(300)), KeyC: eng.NewKey(rng), KeyS: eng.NewKey(rng)}
		if kk {
			cfg.CMin, cfg.SMin, cfg.SMax = 2, 2, 2
		}
		k := []int{0, 1, 7, 64, 100, 4096}[rng.Intn(6)]
		plain := eng.MsgBytes('p', trial, []int{0, 1, 17, 300}[rng.Intn(4)])
		ce, se, got, rerr := eng.RunPipelined(cfg, plain, func() int { return k })
		rep := map[string]any{"kind": "P", "kk": kk, "server_max_version": cfg.SMax, "max_read": k, "record_len": len(plain)}
		if ce != nil || se != nil {
			c.Shard.Violate("pipelined-handshake-fails", fmt.Sprintf("handshake with a record pipelined behind the last act failed: client=%v server=%v (max read %d, kk=%v)", ce, se, k, kk), rep)
			continue
		}
		if rerr != nil || !bytes.Equal(got, plain) {
			c.Shard.Violate("pipelined-record-lost", fmt.Sprintf("the record written right behind the last handshake act (delivered in the same chunk) was not read back: err=%v, %d of %d bytes (max read %d, kk=%v)", rerr, len(got), len(plain), k, kk), rep)
		}
		c.Shard.Count("pipelined_handshakes", 1)
	}
	c.Shard.Eval(fmt.Sprintf("P|%d", c.Idx))
}

func runC16(c *mon.Case) {
	if c.Idx%10 == 9 {
		runC16Pipelined(c)
		return
	}
	if c.Idx%2 == 0 {
		runC16Reads(c)
	} else {
		runC16Writes(c)
	}
}

func runC16Reads(c *mon.Case) {
	rng := c.Rng
	kk := rng.Intn(2) == 0
	psizes := []int{0, 1, 498, 499, 5000, 65536, 1 << 20}
	psize := psizes[rng.Intn(len(psizes))]
	if psize > 70000 && c.Idx%16 != 0 {
		psize = 5000
	}
	auth := authMarker(rng, psize)
	pass := eng.Entropy(rng)
	vmax := byte(rng.Intn(3))
	cfg := eng.HSConfig{KK: kk, CMin: 0, CMax: 2, SMin: 0, SMax: vmax, PassC: pass, PassS: pass, Auth: auth,
		KeyC: eng.NewKey(rng), KeyS: eng.NewKey(rng), EphSeed: 1 + rng.Int63()}
	if vmax == 0 && psize > 498 {
		cfg.SMax = 1
	}
	if kk {
		cfg.CMin, cfg.SMin, cfg.SMax = 2, 2, 2
	}
	ref := eng.RunHandshake(cfg)
	if !ref.OK() {
		c.Shard.Inconc(fmt.Sprintf("reference handshake failed: %v / %v", ref.C.Err, ref.S.Err))
		return
	}
	ks := []int{1, 2, 3, 7, 16, 33, 100, 0}
	k := ks[rng.Intn(len(ks))]
	if psize > 70000 && k < 16 {
		k = 100
	}
	fr := rand.New(rand.NewSource(rng.Int63()))
	readMax := func() int {
		if k > 0 {
			return k
		}
		return 1 + fr.Intn(40)
	}
	fcfg := cfg
	side := rng.Intn(3)
	if side != 1 {
		fcfg.ReadMaxC = readMax
	}
	if side != 0 {
		fcfg.ReadMaxS = readMax
	}
	rep := map[string]any{"kind": "R", "kk": kk, "auth_len": psize, "max_read": k, "fragmented_side": []string{"client", "server", "both"}[side], "server_max_version": cfg.SMax}
	fr2 := eng.RunHandshake(fcfg)
	if !fr2.OK() {
		c.Shard.Violate("handshake-fails-when-fragmented", fmt.Sprintf("handshake that succeeds unfragmented fails when Read returns at most %d bytes (%s fragmented, kk=%v, auth %d bytes): client=%v server=%v", k, rep["fragmented_side"], kk, psize, fr2.C.Err, fr2.S.Err), rep)
		c.Shard.Eval(fmt.Sprintf("R|%v|%d|%d|%d", kk, psize, k, side))
		return
	}
	a, b := ref.C.M.VerifSnapshot(), fr2.C.M.VerifSnapshot()
	sa, sb := ref.S.M.VerifSnapshot(), fr2.S.M.VerifSnapshot()
	if a.Version != b.Version || a.SendKey != b.SendKey || a.RecvKey != b.RecvKey || !bytes.Equal(a.ReceivedPayload, b.ReceivedPayload) || sa.SendKey != sb.SendKey || sa.Version != sb.Version {
		c.Shard.Violate("handshake-outcome-differs", fmt.Sprintf("fragmented handshake completed with a different outcome: version %d vs %d, payload %d vs %d bytes, keys equal=%v", a.Version, b.Version, len(a.ReceivedPayload), len(b.ReceivedPayload), a.SendKey == b.SendKey), rep)
	}
	// records through a fragmenting reader
	sizes := []int{0, 1, 15, 16, 17, 100, 65535}
	var plains [][]byte
	for i := 0; i < 6; i++ {
		sz := sizes[rng.Intn(len(sizes))]
		if sz == 65535 && k > 0 && k < 7 {
			sz = 100
		}
		plains = append(plains, eng.MsgBytes('f', i, sz))
	}
	recs, err := eng.WriteRecords(fr2.C.M, plains)
	if err != nil {
		c.Shard.Inconc("write failed: " + err.Error())
		return
	}
	var stream []byte
	for _, r := range recs {
		stream = append(stream, r.Bytes()...)
	}
	rd := &fragReader{b: stream, max: readMax, eofWithData: c.Idx%3 == 1}
	for i := range plains {
		p, err := fr2.S.M.ReadMessage(rd)
		if err != nil || !bytes.Equal(p, plains[i]) {
			c.Shard.Violate("record-fails-when-fragmented", fmt.Sprintf("record #%d (%d bytes) read through a stream returning at most %d bytes per Read: err=%v, %d bytes returned", i, len(plains[i]), k, err, len(p)), rep)
			break
		}
	}
	c.Shard.Count("fragmented_handshakes", 1)
	c.Shard.Eval(fmt.Sprintf("R|%v|%d|%d|%d|%d", kk, psize, k, side, cfg.SMax))
	if c.Idx%60 == 0 {
		c.Shard.Sample(rep)
	}
}

type fragReader struct {
	b   []byte
	max func() int
	// eofWithData makes the Read that delivers the last bytes of the stream
	// report io.EOF in the same call, as the io.Reader contract allows (a
	// reader "may return the (non-nil) error from the same call").
	eofWithData bool
}

func (f *fragReader) Read(p []byte) (int, error) {
	if len(f.b) == 0 {
		if f.eofWithData {
			return 0, io.EOF
		}
		return 0, fmt.Errorf("stream exhausted")
	}
	n := len(p)
	if m := f.max(); m > 0 && m < n {
		n = m
	}
	if n > len(f.b) {
		n = len(f.b)
	}
	copy(p, f.b[:n])
	f.b = f.b[n:]
	if len(f.b) == 0 && f.eofWithData {
		return n, io.EOF
	}
	return n, nil
}

type timeoutErr struct{}

func (timeoutErr) Error() string   { return "i/o timeout (injected)" }
func (timeoutErr) Timeout() bool   { return true }
func (timeoutErr) Temporary() bool { return true }

// cutWriter accepts bytes only up to the next cut (absolute offsets within the
// current record) and then fails with a timeout error.
type cutWriter struct {
	out  []byte
	cuts []int // remaining absolute offsets (ascending) at which a write is interrupted
	base int   // offset of the current record in out
}

func (w *cutWriter) Write(p []byte) (int, error) {
	pos := len(w.out) - w.base
	for len(w.cuts) > 0 && w.cuts[0] <= pos {
		// a cut exactly at the current position: fail without accepting anything, once
		if w.cuts[0] == pos {
			w.cuts = w.cuts[1:]
			return 0, timeoutErr{}
		}
		w.cuts = w.cuts[1:]
	}
	if len(w.cuts) > 0 && w.cuts[0] < pos+len(p) {
		n := w.cuts[0] - pos
		w.cuts = w.cuts[1:]
		w.out = append(w.out, p[:n]...)
		return n, timeoutErr{}
	}
	w.out = append(w.out, p...)
	return len(p), nil
}

func runC16Writes(c *mon.Case) {
	rng := c.Rng
	kk := rng.Intn(2) == 0
	pass := eng.Entropy(rng)
	cfg := eng.HSConfig{KK: kk, CMin: 0, CMax: 2, SMin: 0, SMax: 2, PassC: pass, PassS: pass, Auth: []byte("x"),
		KeyC: eng.NewKey(rng), KeyS: eng.NewKey(rng), EphSeed: 1 + rng.Int63()}
	if kk {
		cfg.CMin, cfg.SMin = 2, 2
	}
	live, twin := eng.RunHandshake(cfg), eng.RunHandshake(cfg)
	if !live.OK() || !twin.OK() {
		c.Shard.Inconc("handshake failed")
		return
	}
	if live.C.M.VerifSnapshot().SendKey != twin.C.M.VerifSnapshot().SendKey {
		c.Shard.Inconc("twin sessions are not bit-identical")
		return
	}
	// which payload size this case sweeps
	small := []int{0, 1, 15, 16, 17, 100}
	k := c.Idx / 2
	size := small[k%len(small)]
	threeWay := (k/len(small))%2 == 1
	random := (k/len(small)/2)%4 == 3
	if random {
		size = []int{1000, 65535}[rng.Intn(2)]
	}
	total := 18 + size + 16
	var partitions [][]int
	switch {
	case random:
		for i := 0; i < 40; i++ {
			n := 1 + rng.Intn(12)
			set := map[int]bool{}
			for j := 0; j < n; j++ {
				set[rng.Intn(total+1)] = true
			}
			var cuts []int
			for x := 0; x <= total; x++ {
				if set[x] {
					cuts = append(cuts, x)
				}
			}
			partitions = append(partitions, cuts)
		}
	case !threeWay:
		for a := 0; a <= total; a++ {
			partitions = append(partitions, []int{a})
		}
	default:
		// all pairs for the small sizes; a PRNG sample of the pairs for 100
		for a := 0; a <= total; a++ {
			for b := a; b <= total; b++ {
				if size == 100 && rng.Intn(6) != 0 && !(a == b || a < 20 || b > total-18) {
					continue
				}
				partitions = append(partitions, []int{a, b})
			}
		}
	}
	rep := map[string]any{"kind": "W", "kk": kk, "payload": size, "partitions": len(partitions)}
	w := &cutWriter{}
	var twinOut bytes.Buffer
	for pi, cuts := range partitions {
		plain := eng.MsgBytes('w', pi, size)
		// twin: single shot
		if err := twin.C.M.WriteMessage(plain); err != nil {
			c.Shard.Inconc("twin write failed")
			return
		}
		before := twinOut.Len()
		if _, err := twin.C.M.Flush(&twinOut); err != nil {
			c.Shard.Inconc("twin flush failed")
			return
		}
		want := twinOut.Bytes()[before:]
		// live: partial writes
		w.base = len(w.out)
		w.cuts = append([]int{}, cuts...)
		if err := live.C.M.WriteMessage(plain); err != nil {
			c.Shard.Violate("write-rejected", fmt.Sprintf("WriteMessage of a new record failed although the previous one was flushed completely: %v", err), rep)
			return
		}
		sum, flushes := 0, 0
		for {
			n, err := live.C.M.Flush(w)
			sum += n
			flushes++
			if err == nil {
				break
			}
			var te timeoutErr
			if !errors.As(err, &te) || flushes > len(cuts)+3 {
				c.Shard.Violate("flush-error", fmt.Sprintf("Flush #%d returned %v (cuts %v, payload %d)", flushes, err, cuts, size), rep)
				return
			}
			// Full duplex: while this record is pending, a record of the
			// peer is read on the same Machine (every other partition,
			// after the first interruption); it must not disturb the
			// pending one.
			if pi%2 == 1 && flushes == 1 {
				q := eng.MsgBytes('r', pi, 1+pi%40)
				var back, tback bytes.Buffer
				if err := live.S.M.WriteMessage(q); err != nil {
					c.Shard.Inconc("reverse write failed")
					return
				}
				if _, err := live.S.M.Flush(&back); err != nil {
					c.Shard.Inconc("reverse flush failed")
					return
				}
				got, err := live.C.M.ReadMessage(&back)
				if err != nil || !bytes.Equal(got, q) {
					c.Shard.Violate("reverse-read-with-pending-write", fmt.Sprintf("a record of the peer read while an outgoing record was partly flushed (%d of %d wire bytes): err=%v", len(w.out)-w.base, total, err), rep)
					return
				}
				_ = twin.S.M.WriteMessage(q)
				if _, err := twin.S.M.Flush(&tback); err != nil {
					c.Shard.Inconc("twin reverse flush failed")
					return
				}
				if _, err := twin.C.M.ReadMessage(&tback); err != nil {
					c.Shard.Inconc("twin reverse read failed")
					return
				}
				c.Shard.Count("reads_interleaved_with_pending_writes", 1)
			}
			// a new record must be refused while this one is pending,
			// and the refusal must not disturb it
			emitted := len(w.out) - w.base
			if emitted < total {
				if err := live.C.M.WriteMessage([]byte("intruder")); !errors.Is(err, mailbox.ErrMessageNotFlushed) {
					c.Shard.Violate("write-not-refused", fmt.Sprintf("after %d of %d wire bytes (cuts %v, payload %d) WriteMessage returned %v instead of ErrMessageNotFlushed", emitted, total, cuts, size, err), rep)
					return
				}
			}
		}
		got := w.out[w.base:]
		if !bytes.Equal(got, want) {
			c.Shard.Violate("emitted-bytes-differ", fmt.Sprintf("payload %d, write interrupted at offsets %v: %d bytes were emitted, the single-shot encoding has %d bytes; first difference at offset %d", size, cuts, len(got), len(want), firstDiff(got, want)), rep)
			return
		}
		if sum != size {
			c.Shard.Violate("flush-count", fmt.Sprintf("payload %d, write interrupted at offsets %v: the Flush calls reported %d plaintext bytes in total", size, cuts, sum), rep)
			return
		}
		p, err := live.S.M.ReadMessage(bytes.NewReader(got))
		if err != nil || !bytes.Equal(p, plain) {
			c.Shard.Violate("peer-cannot-read", fmt.Sprintf("payload %d, cuts %v: the peer's ReadMessage returned err=%v", size, cuts, err), rep)
			return
		}
		// keep the twin's reader in step
		if _, err := twin.S.M.ReadMessage(bytes.NewReader(want)); err != nil {
			c.Shard.Inconc("twin read failed")
			return
		}
		if len(w.out) > 1<<22 {
			w.out = nil
		}
	}
	c.Shard.Count("partial_write_partitions", int64(len(partitions)))
	c.Shard.Eval(fmt.Sprintf("W|%v|%d|three=%v|rand=%v", kk, size, threeWay, random))
	if c.Idx%60 == 1 {
		c.Shard.Sample(rep)
	}
}

func firstDiff(a, b []byte) int {
	for i := 0; i < len(a) && i < len(b); i++ {
		if a[i] != b[i] {
			return i
		}
	}
	if len(a) < len(b) {
		return len(a)
	}
	return len(b)
}
