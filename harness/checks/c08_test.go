package checks

import (
	"bytes"
	"fmt"
	"testing"

	"verifharness/eng"
	"verifharness/mon"

	"github.com/lightninglabs/lightning-node-connect/mailbox"
)

func TestC08(t *testing.T) {
	mon.Main(t, mon.Check{
		ID:          "C08",
		Level:       "exploration",
		Rule:        "two real noise Machines after a real XX or KK handshake exchange 0..6000 records per direction (up to 12 key rotations) of sizes {0,1,2,16,100,1000,65535}, all-equal or distinct plaintexts; the order of the four operations (client writes, server writes, server reads, client reads) is a PRNG schedule, including bursts in which both directions cross a rotation boundary while records are in flight. Before every write the (key, nonce) pair about to be used is read through the hook. Oracles: no (key, nonce) pair is ever used twice, neither within a direction nor across directions or machines; writer and reader change keys at the same record indices; every read returns exactly the plaintext written at that index; equal plaintexts never give equal ciphertexts; the plaintext markers and the auth payload (raw, hex, base64) occur nowhere in the bytes written during the handshake or the stream. In a third of the sessions a quarter of the records are flushed through a writer that accepts a PRNG number of bytes and times out; the writer flushes again until the record is out, meanwhile the same Machine reads a record of the other direction or is offered (and must refuse) the next record. Non-trivial = at least one rotation in each direction that carried traffic; distinct = (pattern, record counts, schedule hash).",
		Assumptions: []string{"secrecy is decided in its observable form only (markers absent from the wire)"},
		NCases: func(tier string) int {
			if tier == "thorough" {
				return 8000
			}
			return 96
		},
		MinEvals: 20,
		Run:      runC08,
	})
}

// c08Keys remembers, per worker process, every traffic key seen so far: two
// sessions must never end up with the same key.
var c08Keys = map[[32]byte]string{}

type kn struct {
	key   [32]byte
	nonce uint64
}

func runC08(c *mon.Case) {
	rng := c.Rng
	kk := rng.Intn(2) == 0
	auth := authMarker(rng, 200+rng.Intn(300))
	pass := eng.Entropy(rng)
	cfg := eng.HSConfig{KK: kk, CMin: 0, CMax: 2, SMin: 0, SMax: 2, PassC: pass, PassS: pass, Auth: auth, KeyC: eng.NewKey(rng), KeyS: eng.NewKey(rng)}
	if kk {
		cfg.CMin, cfg.SMin = 2, 2
	}
	hs := eng.RunHandshake(cfg)
	if !hs.OK() {
		c.Shard.Inconc(fmt.Sprintf("clean handshake failed: %v / %v", hs.C.Err, hs.S.Err))
		return
	}
	counts := []int{0, 3, 499, 500, 501, 1000, 1203, 3000, 6000}
	nA, nB := counts[rng.Intn(len(counts))], counts[rng.Intn(len(counts))]
	if c.Tier != "thorough" {
		if nA > 1300 && c.Idx%8 != 0 {
			nA = 1203
		}
		if nB > 1300 && c.Idx%8 != 1 {
			nB = 1001
		}
	}
	equalPlain := rng.Intn(3) == 0
	rep := map[string]any{"kk": kk, "records_c2s": nA, "records_s2c": nB, "equal_plaintexts": equalPlain}
	sizes := []int{0, 1, 2, 16, 100, 1000, 65535}
	fixed := authMarker(rng, 64)
	copy(fixed, "PLAINTEXT-MARKER-")

	type dirState struct {
		name          string
		w, r          *mailbox.Machine
		n             int
		written, read int
		stream        bytes.Buffer
		plains        [][]byte
		wKeyChange    []int // record indices at which the writer's key changed
		rKeyChange    []int
		lastWKey      [32]byte
		lastRKey      [32]byte
		ciphers       map[string]int
		wireBytes     int
	}
	a := &dirState{name: "c2s", w: hs.C.M, r: hs.S.M, n: nA, ciphers: map[string]int{}}
	b := &dirState{name: "s2c", w: hs.S.M, r: hs.C.M, n: nB, ciphers: map[string]int{}}
	a.lastWKey, a.lastRKey = hs.C.M.VerifSnapshot().SendKey, hs.S.M.VerifSnapshot().RecvKey
	b.lastWKey, b.lastRKey = hs.S.M.VerifSnapshot().SendKey, hs.C.M.VerifSnapshot().RecvKey
	registry := map[kn]string{}
	sessionID := fmt.Sprintf("session %d", c.Idx)
	for _, k := range [][32]byte{a.lastWKey, b.lastWKey} {
		if prev, ok := c08Keys[k]; ok && prev != sessionID {
			c.Shard.Violate("key-shared-across-sessions", fmt.Sprintf("%s derived a traffic key that %s (different static keys, different passphrase) had already derived", sessionID, prev), rep)
		}
		c08Keys[k] = sessionID
	}
	var markers [][]byte
	markers = append(markers, auth)
	fail := func(key, desc string) {
		c.Shard.Violate(key, fmt.Sprintf("%s [kk=%v, %d/%d records]", desc, kk, nA, nB), rep)
	}
	stop := false
	use := func(d *dirState, idx int, which string) {
		sn := d.w.VerifSnapshot()
		for off := uint64(0); off < 2; off++ { // header and body nonces
			k := kn{sn.SendKey, sn.SendNonce + off}
			// the rotation happens when the counter reaches the interval;
			// the body of a record written at nonce interval-1 uses the
			// rotated key and is covered by the next record's check
			if off == 1 && sn.SendNonce+1 >= 1000 {
				break
			}
			if prev, ok := registry[k]; ok {
				fail("nonce-reuse", fmt.Sprintf("%s record #%d uses key %x.. nonce %d which was already used by %s", d.name, idx, k.key[:4], k.nonce, prev))
				stop = true
			}
			registry[k] = fmt.Sprintf("%s record #%d", d.name, idx)
		}
	}
	partial := c.Idx%3 == 1
	partialFlushes := 0
	other := func(d *dirState) *dirState {
		if d == a {
			return b
		}
		return a
	}
	var readFn func(d *dirState)
	write := func(d *dirState) {
		i := d.written
		var p []byte
		if equalPlain {
			p = fixed
		} else {
			sz := sizes[rng.Intn(len(sizes))]
			if sz == 65535 && rng.Intn(20) != 0 {
				sz = 16
			}
			p = eng.MsgBytes(d.name[0], i, sz)
			if sz >= 32 {
				copy(p, fmt.Sprintf("MARK-%s-%06d-", d.name, i))
				if len(markers) < 40 {
					markers = append(markers, p[:32])
				}
			}
		}
		if k := d.w.VerifSnapshot().SendKey; k != d.lastWKey {
			d.wKeyChange = append(d.wKeyChange, i)
			d.lastWKey = k
		}
		use(d, i, "write")
		before := d.stream.Len()
		if err := d.w.WriteMessage(p); err != nil {
			fail("write-error", fmt.Sprintf("%s WriteMessage #%d: %v", d.name, i, err))
			stop = true
			return
		}
		if partial && rng.Intn(4) == 0 {
			// The transport accepts a part of the record and times out;
			// the writer flushes again until the record is out. In between,
			// the same Machine reads a record of the other direction.
			wire := 18 + len(p) + 16
			for attempt := 0; ; attempt++ {
				lw := &budgetWriter{dst: &d.stream, budget: rng.Intn(wire + 1)}
				if attempt > 6 {
					lw.budget = wire
				}
				_, err := d.w.Flush(lw)
				if err == nil {
					break
				}
				if _, ok := err.(timeoutErr); !ok {
					fail("write-error", fmt.Sprintf("%s Flush #%d: %v", d.name, i, err))
					stop = true
					return
				}
				partialFlushes++
				if rng.Intn(3) == 0 {
					// an impatient writer offers the next record before
					// the pending one is out; it is refused (that is
					// C16's subject) and must leave no trace in the
					// cipher state
					if err := d.w.WriteMessage([]byte("not yet")); err == nil {
						c.Shard.Count("writes_accepted_while_pending_judged_by_C16", 1)
						stop = true
						return
					}
				}
				if o := other(d); o.read < o.written && rng.Intn(2) == 0 {
					readFn(o)
					if stop {
						return
					}
				}
			}
		} else if _, err := d.w.Flush(&d.stream); err != nil {
			fail("write-error", fmt.Sprintf("%s Flush #%d: %v", d.name, i, err))
			stop = true
			return
		}
		ct := d.stream.Bytes()[before:]
		d.wireBytes += len(ct)
		if equalPlain {
			if j, ok := d.ciphers[string(ct)]; ok {
				fail("equal-ciphertexts", fmt.Sprintf("%s records #%d and #%d carry the same plaintext and have identical ciphertexts", d.name, j, i))
				stop = true
			}
			d.ciphers[string(ct)] = i
		}
		for _, m := range markers {
			if form := wireContains([][]byte{ct}, m); form != "" {
				fail("plaintext-on-wire", fmt.Sprintf("%s record #%d: a plaintext/auth marker is visible on the wire in %s form", d.name, i, form))
				stop = true
			}
		}
		d.plains = append(d.plains, p)
		d.written++
	}
	// What ReadMessage returned stays the reader's: the last few results of
	// each direction are kept and looked at again after later records were
	// read ("keep decrypting to exactly what was written" for a caller of the
	// message API that holds on to a message while it reads the next one).
	type keptMsg struct {
		idx  int
		p    []byte
		copy []byte
	}
	keptBy := map[*dirState][]keptMsg{}
	read := func(d *dirState) {
		i := d.read
		if k := d.r.VerifSnapshot().RecvKey; k != d.lastRKey {
			d.rKeyChange = append(d.rKeyChange, i)
			d.lastRKey = k
		}
		p, err := d.r.ReadMessage(&d.stream)
		if err != nil {
			fail("read-error", fmt.Sprintf("%s record #%d failed to decrypt: %v", d.name, i, err))
			stop = true
			return
		}
		if !bytes.Equal(p, d.plains[i]) {
			fail("read-differs", fmt.Sprintf("%s record #%d decrypts to %d bytes that differ from the %d bytes written", d.name, i, len(p), len(d.plains[i])))
			stop = true
		}
		d.plains[i] = nil
		d.read++
		for _, k := range keptBy[d] {
			if !bytes.Equal(k.p, k.copy) {
				fail("read-result-changed-later", fmt.Sprintf("%s record #%d: the %d bytes ReadMessage returned were overwritten when record #%d was read", d.name, k.idx, len(k.copy), i))
				stop = true
				break
			}
		}
		if len(p) <= 4096 {
			keptBy[d] = append(keptBy[d], keptMsg{idx: i, p: p, copy: append([]byte{}, p...)})
			if len(keptBy[d]) > 3 {
				keptBy[d] = keptBy[d][1:]
			}
		}
	}
	readFn = read
	// schedule: bursts of one operation kind
	sched := uint64(14695981039346656037)
	for !stop && (a.read < a.n || b.read < b.n) {
		op := rng.Intn(4)
		burst := 1 + rng.Intn(40)
		if rng.Intn(10) == 0 {
			burst = 400 + rng.Intn(300) // both directions get far ahead of their readers
		}
		sched = (sched ^ uint64(op)) * 1099511628211
		for k := 0; k < burst && !stop; k++ {
			switch op {
			case 0:
				if a.written < a.n {
					write(a)
				}
			case 1:
				if b.written < b.n {
					write(b)
				}
			case 2:
				if a.read < a.written {
					read(a)
				}
			case 3:
				if b.read < b.written {
					read(b)
				}
			}
		}
	}
	if !stop {
		for _, d := range []*dirState{a, b} {
			if fmt.Sprint(d.wKeyChange) != fmt.Sprint(d.rKeyChange) {
				fail("rotation-mismatch", fmt.Sprintf("%s: writer changed keys before records %v, reader before records %v", d.name, d.wKeyChange, d.rKeyChange))
			}
			want := d.n / 500
			if d.n%500 == 0 && d.n > 0 {
				want--
			}
			if len(d.wKeyChange) != want {
				fail("rotation-count", fmt.Sprintf("%s: %d records, %d key changes observed at %v, expected %d (one per 500 records)", d.name, d.n, len(d.wKeyChange), d.wKeyChange, want))
			}
		}
		// handshake bytes must not carry the auth payload or passphrase
		all := append(append([][]byte{}, hs.C2S.Written...), hs.S2C.Written...)
		if form := wireContains(all, auth); form != "" {
			fail("auth-on-wire", "the auth payload is visible in the handshake bytes in "+form+" form")
		}
	}
	c.Shard.Count("records", int64(a.read+b.read))
	c.Shard.Count("partial_flushes", int64(partialFlushes))
	c.Shard.Count("key_nonce_pairs", int64(len(registry)))
	c.Shard.Count("rotations", int64(len(a.wKeyChange)+len(b.wKeyChange)))
	c.Shard.Count("wire_bytes_scanned", int64(a.wireBytes+b.wireBytes))
	if (nA == 0 || len(a.wKeyChange) > 0) && (nB == 0 || len(b.wKeyChange) > 0) && nA+nB > 0 {
		c.Shard.Eval(fmt.Sprintf("%v|%d|%d|%x|eq=%v", kk, nA, nB, sched, equalPlain))
	} else {
		c.Shard.Eval("")
	}
	if c.Idx%24 == 0 {
		rep["rotations_c2s"], rep["rotations_s2c"] = a.wKeyChange, b.wKeyChange
		c.Shard.Sample(rep)
	}
}

// budgetWriter accepts budget bytes and then reports a timeout, like a
// connection whose write deadline strikes inside a record.
type budgetWriter struct {
	dst    *bytes.Buffer
	budget int
}

func (w *budgetWriter) Write(p []byte) (int, error) {
	if w.budget >= len(p) {
		w.budget -= len(p)
		return w.dst.Write(p)
	}
	n := w.budget
	w.budget = 0
	w.dst.Write(p[:n])
	return n, timeoutErr{}
}
