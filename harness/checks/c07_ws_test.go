package checks

import (
	"context"
	"crypto/ecdsa"
	"crypto/elliptic"
	crand "crypto/rand"
	"crypto/tls"
	"crypto/x509"
	"crypto/x509/pkix"
	"encoding/base64"
	"encoding/pem"
	"fmt"
	"math/big"
	"net"
	"net/http"
	"os"
	"path/filepath"
	"sync"
	"sync/atomic"
	"time"

	"verifharness/mon"

	"github.com/btcsuite/btclog/v2"
	"github.com/coder/websocket"
	"github.com/lightninglabs/lightning-node-connect/mailbox"
)

// wsServer is a local TLS websocket endpoint that plays the mailbox proxy and
// answers every receive-socket subscription with scripted (hostile) text
// frames.
type wsServer struct {
	addr   string
	srv    *http.Server
	mu     sync.Mutex
	frames [][]byte // frames to send on the next receive subscriptions
	next   int
	served atomic.Int64
}

var (
	wsOnce sync.Once
	wsSrv  *wsServer
	wsErr  error
)

// startWS creates the certificate, points SSL_CERT_FILE at it (the process has
// not verified any certificate yet, so the system pool is built from it) and
// starts the server.
func startWS() (*wsServer, error) {
	wsOnce.Do(func() {
		key, err := ecdsa.GenerateKey(elliptic.P256(), crand.Reader)
		if err != nil {
			wsErr = err
			return
		}
		tmpl := &x509.Certificate{
			SerialNumber: big.NewInt(1), Subject: pkix.Name{CommonName: "verif-ws"},
			NotBefore: time.Now().Add(-time.Hour), NotAfter: time.Now().Add(24 * time.Hour),
			KeyUsage: x509.KeyUsageDigitalSignature | x509.KeyUsageCertSign, IsCA: true, BasicConstraintsValid: true,
			ExtKeyUsage: []x509.ExtKeyUsage{x509.ExtKeyUsageServerAuth},
			IPAddresses: []net.IP{net.IPv4(127, 0, 0, 1)}, DNSNames: []string{"localhost"},
		}
		der, err := x509.CreateCertificate(crand.Reader, tmpl, tmpl, &key.PublicKey, key)
		if err != nil {
			wsErr = err
			return
		}
		// inside the run's scratch directory, which the parent removes
		base := ""
		if out := os.Getenv("VERIF_OUT"); out != "" {
			base = filepath.Dir(out)
		}
		dir, err := os.MkdirTemp(base, "verif-ws-")
		if err != nil {
			wsErr = err
			return
		}
		certPEM := pem.EncodeToMemory(&pem.Block{Type: "CERTIFICATE", Bytes: der})
		certFile := filepath.Join(dir, "ca.pem")
		if wsErr = os.WriteFile(certFile, certPEM, 0o600); wsErr != nil {
			return
		}
		os.Setenv("SSL_CERT_FILE", certFile)
		os.Setenv("SSL_CERT_DIR", dir)
		ln, err := net.Listen("tcp", "127.0.0.1:0")
		if err != nil {
			wsErr = err
			return
		}
		s := &wsServer{addr: ln.Addr().String()}
		mux := http.NewServeMux()
		mux.HandleFunc("/v1/lightning-node-connect/hashmail/receive", s.receive)
		mux.HandleFunc("/v1/lightning-node-connect/hashmail/send", s.send)
		s.srv = &http.Server{Handler: mux, TLSConfig: &tls.Config{Certificates: []tls.Certificate{{Certificate: [][]byte{der}, PrivateKey: key}}}}
		go func() { _ = s.srv.ServeTLS(ln, "", "") }()
		wsSrv = s
	})
	return wsSrv, wsErr
}

func (s *wsServer) receive(w http.ResponseWriter, r *http.Request) {
	c, err := websocket.Accept(w, r, nil)
	if err != nil {
		return
	}
	defer c.Close(websocket.StatusNormalClosure, "")
	ctx, cancel := context.WithTimeout(r.Context(), 20*time.Second)
	defer cancel()
	// the subscription request
	_, req, err := c.Read(ctx)
	if err != nil {
		return
	}
	if rl, id := wsRelayFor(req); rl != nil {
		cancel()
		wsBridgeReceive(r.Context(), c, rl, id)
		return
	}
	s.mu.Lock()
	var f []byte
	if len(s.frames) > 0 {
		f = s.frames[s.next%len(s.frames)]
		s.next++
	}
	s.mu.Unlock()
	if f != nil {
		_ = c.Write(ctx, websocket.MessageText, f)
		s.served.Add(1)
	}
	// keep the socket open for a moment, then hang up
	select {
	case <-ctx.Done():
	case <-time.After(1500 * time.Millisecond):
	}
}

func (s *wsServer) send(w http.ResponseWriter, r *http.Request) {
	c, err := websocket.Accept(w, r, nil)
	if err != nil {
		return
	}
	defer c.Close(websocket.StatusNormalClosure, "")
	ctx, cancel := context.WithTimeout(r.Context(), 20*time.Second)
	defer cancel()
	c.SetReadLimit(1 << 24)
	for {
		_, msg, err := c.Read(ctx)
		if err != nil {
			return
		}
		if rl, _ := wsRelayFor(msg); rl != nil {
			cancel()
			wsBridgeSend(r.Context(), c, rl, msg)
			return
		}
	}
}

// runC07Websocket drives a real ClientConn in websocket mode against the local
// TLS endpoint, which answers with hostile text frames.
func runC07Websocket(c *mon.Case) {
	s, err := startWS()
	if err != nil {
		c.Shard.Inconc("websocket endpoint could not be started: " + err.Error())
		return
	}
	rng := c.Rng
	b64 := func(b []byte) string { return base64.StdEncoding.EncodeToString(b) }
	wrap := func(gbnPkt []byte) []byte {
		return []byte(fmt.Sprintf(`{"result":{"desc":{"stream_id":"AA=="},"msg":"%s"}}`, b64(gbnPkt)))
	}
	frames := [][]byte{
		[]byte(""), []byte("{"), []byte(`{"result":}`), []byte(`{"result":{}}`), []byte(`{"result":null}`), []byte(`{"result":{"msg":"!!!"}}`),
		[]byte(`{"error":{"code":5,"message":"stream not found"}}`), []byte(`{"error":{"message":"stream occupied"}}`), []byte(`{"result":[1,2]}`),
		[]byte(`{"result":{"msg":123}}`), []byte("\x00\xff\xfe"), []byte(`{"result":{"msg":"AA=="}}{"result":{"msg":"AQ=="}}`),
		wrap([]byte{2, 0, 0}), wrap([]byte{1, 255}), wrap([]byte{}), wrap([]byte{1}), wrap([]byte{3}), wrap([]byte{4, 200}), wrap([]byte{9, 9, 9}),
		wrap([]byte{1, 20, 7, 7, 7}), wrap([]byte{6}), wrap([]byte{5}),
		[]byte(`{"result":`), []byte(`{"error":`), []byte(`{"result":{`), []byte(`{"error":{"message":`),
	}
	for i := 0; i < 6; i++ {
		b := make([]byte, rng.Intn(40))
		rng.Read(b)
		frames = append(frames, wrap(b), b)
	}
	rng.Shuffle(len(frames), func(i, j int) { frames[i], frames[j] = frames[j], frames[i] })
	s.mu.Lock()
	s.frames = frames
	s.mu.Unlock()
	before := s.served.Load()
	var wg sync.WaitGroup
	conns := 6
	for k := 0; k < conns; k++ {
		wg.Add(1)
		go func() {
			defer wg.Done()
			ctx, cancel := context.WithTimeout(context.Background(), 9*time.Second)
			defer cancel()
			var sid [64]byte
			_, _ = crand.Read(sid[:])
			cc, err := mailbox.NewClientConn(ctx, sid, s.addr, nil, btclog.Disabled, func(mailbox.ClientStatus) {})
			if err == nil {
				// a fake server cannot complete a GBN handshake with
				// these frames; if it did, just close
				_ = cc.Close()
			}
		}()
	}
	wg.Wait()
	got := s.served.Load() - before
	c.Shard.Count("websocket_hostile_frames_served", got)
	if got == 0 {
		c.Shard.Inconc("the websocket endpoint served no frame (TLS trust or loopback not available)")
		c.Shard.Eval("")
		return
	}
	c.Shard.Eval(fmt.Sprintf("E|%d", c.Idx))
	if c.Idx%400 == 7 {
		c.Shard.Sample(map[string]any{"kind": "E", "frames_served": got, "endpoint": "wss://" + s.addr})
	}
}
