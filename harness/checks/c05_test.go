package checks

import (
	"errors"
	"fmt"
	"github.com/lightninglabs/lightning-node-connect/mailbox"
	"math/rand"
	"net"
	"os"
	"runtime/pprof"
	"strings"
	"sync"
	"sync/atomic"
	"testing"
	"time"

	"verifharness/eng"
	"verifharness/mon"
	"verifharness/sim"
)

func TestC05(t *testing.T) {
	mon.Main(t, mon.Check{
		ID:    "C05",
		Level: "exploration",
		Rule:  "full stack in real time: real mailbox.Server/Accept and mailbox.Client/Dial (GBN inside) over an in-memory hashmail relay (semantics of aperture's hashmail server), real NoiseGrpcConn handshakes on top, gRPC-like drivers (accept loop; dial loop that re-dials when a connection fails). Each session transfers a PRNG sequence of writes (sizes 0..65535 incl. 32767/32768/32769/65534/65535) in both directions with PRNG read-buffer sizes; after a connection failure the application restarts its transfer on the next connection; a quarter of the sessions give up their first connection themselves after a PRNG number of bytes (usually inside a record). Relay faults until a cut-off: per-message drop and delay, Send/Recv stream errors at PRNG points (forcing the re-create-and-retry loops), NewCipherBox/RecvStream/SendStream failures. Oracles: on every secured connection the bytes read equal, position by position, the bytes the peer writes on its connection (prefix; any mismatch, duplicate or gap is a violation); after faults cease the transfer completes (possibly after re-dials) or the deadline miss is re-run alone with a 300 s deadline and only a reproduced silent hang is a violation: relay traffic still flowing without a visible failure, or no relay operation at all for 20 s (every live piece of the client has a timer of at most 10 s that ends in a relay operation); otherwise inconclusive; every CipherBox.Msg the relay ever saw is scanned for 24-byte windows of both plaintext streams and for the auth payload (raw/hex/base64). A quarter of the cases are gRPC sessions instead: a real grpc.Server on the real mailbox.Server and a real grpc.ClientConn through mailbox.Client, both with NoiseGrpcConn credentials, over the same relay and fault profiles; 6-25 unary calls (3 in flight) and 5-34 messages through a bidirectional stream, requests up to 70 KB and replies up to 200 KB, failed calls repeated; oracle: every answered call carries exactly the reply to its request, and after faults cease all calls are answered (same re-run rule; a reproduced hang without any failing call for 90 s is a violation). Non-trivial = a session with at least one injected fault that delivered bytes in both directions; distinct = (fault profile, sizes hash).",
		Assumptions: []string{
			"real time: progress verdicts follow the re-run rule of DESIGN 1.3; safety verdicts do not depend on time",
			"the relay is a model of aperture's hashmail server (one reader and one writer per box, FIFO, errors as gRPC surfaces them)",
		},
		NCases: func(tier string) int {
			if tier == "thorough" {
				return 1280
			}
			return 16
		},
		MinEvals: 8,
		Watchdog: 25 * time.Minute,
		Run:      runC05,
	})
}

const c05Batch = 12

func runC05(c *mon.Case) {
	if c.Idx%4 == 3 {
		runC05Grpc(c)
		return
	}
	var wg sync.WaitGroup
	seeds := make([]int64, c05Batch)
	for i := range seeds {
		seeds[i] = c.Rng.Int63()
	}
	for i := 0; i < c05Batch; i++ {
		wg.Add(1)
		go func(i int) {
			defer wg.Done()
			r := c05Session(seeds[i], 180*time.Second)
			if r.safety != "" {
				c.Shard.Violate("stream|"+r.safetyKind, r.safety, r.rep)
			}
			if r.plain != "" {
				c.Shard.Violate("plaintext-at-relay", r.plain, r.rep)
			}
			if r.desync && r.safety == "" {
				// the recorded state is permanent: no repetition needed
				c.Shard.Violate("pairing-desync", fmt.Sprintf("after relay faults ceased the transfer neither completed nor failed visibly within 180 s: the client completed the first handshake and moved to the key-derived rendezvous, the server did not complete it (act three lost or late) and stays on the passphrase rendezvous: %s", r.progress), r.rep)
			} else if !r.completed && r.safety == "" {
				// progress verdicts in real time: re-run alone, generously
				r2 := c05Session(seeds[i], 300*time.Second)
				switch {
				case r2.completed:
					c.Shard.Inconc(fmt.Sprintf("session seed %d missed its 180 s deadline once but completed on the re-run (load)", seeds[i]))
				case r2.desync:
					c.Shard.Violate("pairing-desync", fmt.Sprintf("after relay faults ceased the transfer neither completed nor failed visibly within 300 s (reproduced): the client completed the first handshake and moved to the key-derived rendezvous, the server did not complete it (act three lost or late) and stays on the passphrase rendezvous: %s", r2.progress), r2.rep)
				case r2.quietTail >= 20*time.Second:
					// Every live piece of the client has a timer of at most
					// 10 s that ends in a relay operation (handshake resend,
					// keepalive ping, re-dial), so a relay that has seen
					// nothing for 20 s with the transfer incomplete means the
					// client side is wedged.
					r2.rep["goroutines_waiting_for_a_mutex_in_lnc_code"] = r2.stuck
					c.Shard.Violate("silent-hang|quiet|"+r2.profile, fmt.Sprintf("after relay faults ceased the transfer neither completed nor failed within 300 s (reproduced) and the relay saw no operation at all for the last %v: %s", r2.quietTail.Round(time.Second), r2.progress), r2.rep)
				case r2.relayActiveTail && !r2.anyVisibleFailureTail:
					c.Shard.Violate("silent-hang|"+r2.profile, fmt.Sprintf("after relay faults ceased the transfer neither completed nor failed visibly within 300 s (reproduced): %s", r2.progress), r2.rep)
				default:
					c.Shard.Inconc(fmt.Sprintf("session seed %d did not complete in 300 s: %s", seeds[i], r2.progress))
				}
			}
			c.Shard.Count("sessions", 1)
			c.Shard.Count("bytes_verified", r.bytes)
			c.Shard.Count("relay_messages_scanned", int64(r.relayMsgs))
			c.Shard.Count("faults_injected", int64(r.faults))
			c.Shard.Count("connections", int64(r.conns))
			if r.faults > 0 && r.bytesA > 0 && r.bytesB > 0 {
				c.Shard.Eval(fmt.Sprintf("%s|%x", r.profile, seeds[i]&0xffffff))
			} else {
				c.Shard.Eval("")
			}
			if i == 0 {
				c.Shard.Sample(r.rep)
			}
		}(i)
	}
	wg.Wait()
}

type c05Result struct {
	completed             bool
	safety, safetyKind    string
	plain                 string
	progress              string
	profile               string
	bytes, bytesA, bytesB int64
	relayMsgs, faults     int
	conns                 int
	desync                bool
	relayActiveTail       bool
	quietTail             time.Duration
	stuck                 []string
	anyVisibleFailureTail bool
	rep                   map[string]any
}

func c05Session(seed int64, deadline time.Duration) *c05Result {
	rng := rand.New(rand.NewSource(seed))
	res := &c05Result{}
	pass := eng.Entropy(rng)
	auth := authMarker(rng, 300)
	relay := sim.NewRelay()
	if c := getenv("C05_CAP"); c != "" {
		fmt.Sscan(c, &relay.Cap)
	}
	relay.KeepLog = getenv("C05_DUMP") != ""
	s := eng.NewMboxParty(eng.NewKey(rng), nil, pass, auth, 0, 2)
	cl := eng.NewMboxParty(eng.NewKey(rng), nil, pass, nil, 0, 2)

	// fault profile
	profiles := []string{"clean", "drop", "delay", "break-send", "break-recv", "mixed", "setup-fail"}
	profile := profiles[rng.Intn(len(profiles))]
	res.profile = profile
	faultUntil := time.Duration(4+rng.Intn(10)) * time.Second
	t0 := time.Now()
	var faults atomic.Int64
	var lastOp atomic.Int64
	frng := rand.New(rand.NewSource(rng.Int63()))
	var fmu sync.Mutex
	breakErr := errors.New("rpc error: code = Unavailable desc = transport is closing (injected)")
	relay.Fault = func(op sim.RelayOp) sim.RelayAction {
		lastOp.Store(int64(time.Since(t0)))
		if time.Since(t0) > faultUntil || profile == "clean" {
			return sim.RelayAction{}
		}
		fmu.Lock()
		defer fmu.Unlock()
		x := frng.Float64()
		switch op.Kind {
		case "send":
			switch {
			case (profile == "drop" || profile == "mixed") && x < 0.08:
				faults.Add(1)
				return sim.RelayAction{Drop: true}
			case (profile == "delay" || profile == "mixed") && x < 0.25:
				faults.Add(1)
				return sim.RelayAction{Delay: time.Duration(frng.Intn(400)) * time.Millisecond}
			case (profile == "break-send" || profile == "mixed") && x > 0.97:
				faults.Add(1)
				return sim.RelayAction{Fail: breakErr}
			}
		case "recv":
			if (profile == "break-recv" || profile == "mixed") && x > 0.97 {
				faults.Add(1)
				return sim.RelayAction{Fail: breakErr}
			}
		case "newbox", "recvstream", "sendstream":
			if profile == "setup-fail" && x < 0.5 {
				faults.Add(1)
				return sim.RelayAction{Fail: breakErr}
			}
		}
		return sim.RelayAction{}
	}

	m, err := eng.NewMboxSession(relay, s, cl)
	if err != nil {
		res.safety, res.safetyKind = "session setup: "+err.Error(), "setup"
		return res
	}
	nA, nB := 3+rng.Intn(10), 3+rng.Intn(10)
	sizesA := eng.RandSizesStream(rng, nA, 65535) // client -> server
	sizesB := eng.RandSizesStream(rng, nB, 65535) // server -> client
	totalA, totalB := 0, 0
	for _, x := range sizesA {
		totalA += x
	}
	for _, x := range sizesB {
		totalB += x
	}
	bufSeed := rng.Int63()
	// Some sessions sit idle before the transfer for longer than both
	// keepalive intervals (5 s / 7 s), so that pings have been exchanged in
	// both directions; some have a consumer that starts late and pauses, so
	// that more than a window of GBN messages waits behind it.
	idleFirst := rng.Intn(4) == 0
	slowReader := rng.Intn(4) == 0
	// Some sessions give up their first connection in the middle of the
	// transfer (the reader stops after some bytes, usually inside a record,
	// and closes): the transfer restarts on the next connection, which is
	// served by the same credentials objects.
	abandonA, abandonB := 0, 0
	if rng.Intn(4) == 0 {
		abandonA, abandonB = 1+rng.Intn(totalA), 1+rng.Intn(totalB)
		profile += "+abandon"
	}
	if idleFirst {
		profile += "+idle"
	}
	if slowReader {
		profile += "+slowreader"
	}
	res.profile = profile
	res.rep = map[string]any{"seed": fmt.Sprint(seed), "profile": profile, "fault_until": faultUntil.String(), "writes_c2s": sizesA, "writes_s2c": sizesB}

	m.StartServer()
	m.StartClient()

	var mu sync.Mutex
	var doneA, doneB atomic.Bool // a full transfer was read on some connection
	var bytesA, bytesB atomic.Int64
	var conns atomic.Int64
	var lastFail atomic.Int64
	setSafety := func(kind, s string) {
		mu.Lock()
		if res.safety == "" {
			res.safety, res.safetyKind = s, kind
		}
		mu.Unlock()
	}
	// reader: verifies the incoming stream position by position
	reader := func(conn net.Conn, dir byte, total int, done *atomic.Bool, cnt *atomic.Int64, br *rand.Rand, stopAfter int) {
		bufs := []int{1, 2, 3, 17, 4096, 32767, 32768, 32769, 65535, 100000}
		off := 0
		if slowReader {
			time.Sleep(time.Duration(700+br.Intn(800)) * time.Millisecond)
		}
		for off < total {
			if stopAfter > 0 && off >= stopAfter {
				return
			}
			if slowReader && br.Intn(12) == 0 {
				time.Sleep(time.Duration(br.Intn(400)) * time.Millisecond)
			}
			b := make([]byte, bufs[br.Intn(len(bufs))]+br.Intn(3))
			for i := range b {
				b[i] = 0xA5
			}
			n, err := conn.Read(b)
			if n > len(b) || n < 0 {
				setSafety("read-count", fmt.Sprintf("Read into a %d-byte buffer reported %d bytes", len(b), n))
				return
			}
			if n > 0 {
				exp := eng.StreamBytes(dir, off, n)
				if string(b[:n]) != string(exp) {
					d := firstDiff(b[:n], exp)
					setSafety("bytes-differ", fmt.Sprintf("direction %c: byte at stream offset %d differs from what the peer wrote (read of %d bytes at offset %d, buffer %d)", dir, off+d, n, off, len(b)))
					return
				}
				for i := n; i < len(b); i++ {
					if b[i] != 0xA5 {
						setSafety("buffer-overrun", fmt.Sprintf("Read returned %d but modified byte %d of the buffer", n, i))
						return
					}
				}
				off += n
				cnt.Add(int64(n))
			}
			if err != nil {
				lastFail.Store(int64(time.Since(t0)))
				return
			}
		}
		done.Store(true)
		// Like a transport's reader goroutine, keep reading: this is how
		// the application notices that the peer closed the connection
		// (the caller then closes its side, which lets the listener /
		// dialer hand out the next one). Nothing may arrive any more.
		for {
			b := make([]byte, 4096)
			n, err := conn.Read(b)
			if n > 0 {
				setSafety("extra-bytes", fmt.Sprintf("direction %c: %d byte(s) arrived after the %d bytes the peer wrote", dir, n, total))
				return
			}
			if err != nil {
				return
			}
		}
	}
	stop := make(chan struct{})
	var appWG sync.WaitGroup
	serve := func(ch chan net.Conn, wdir, rdir byte, wsizes []int, rtotal int, rdone *atomic.Bool, rcnt *atomic.Int64, abandon int) {
		defer appWG.Done()
		k := int64(0)
		for {
			select {
			case <-stop:
				return
			case conn := <-ch:
				conns.Add(1)
				k++
				appWG.Add(2)
				// like gRPC's transport: a failed read or write closes
				// the connection, which lets the dialer / listener hand
				// out the next one
				go func() {
					defer appWG.Done()
					if idleFirst {
						select {
						case <-time.After(8500 * time.Millisecond):
						case <-stop:
							return
						}
					}
					if _, err := eng.StreamWriter(conn, wdir, wsizes); err != nil {
						lastFail.Store(int64(time.Since(t0)))
						_ = conn.Close()
					}
				}()
				go func(k int64) {
					defer appWG.Done()
					stopAfter := 0
					if k == 1 {
						stopAfter = abandon
					}
					reader(conn, rdir, rtotal, rdone, rcnt, rand.New(rand.NewSource(bufSeed+k)), stopAfter)
					_ = conn.Close()
				}(k)
			}
		}
	}
	appWG.Add(2)
	go serve(m.SConns, 'b', 'a', sizesB, totalA, &doneA, &bytesA, abandonA)
	go serve(m.CConns, 'a', 'b', sizesA, totalB, &doneB, &bytesB, abandonB)

	tick := time.NewTicker(100 * time.Millisecond)
	defer tick.Stop()
	for time.Since(t0) < deadline {
		<-tick.C
		if (doneA.Load() && doneB.Load()) || func() bool { mu.Lock(); defer mu.Unlock(); return res.safety != "" }() {
			break
		}
	}
	res.completed = doneA.Load() && doneB.Load()
	// Known finding: the first pairing is not atomic. If act three is lost or
	// arrives after the server's handshake read timeout, the client has
	// already completed (it stored the server's key and moves to the
	// key-derived rendezvous with the key-based pattern) while the server
	// has not (it stays on the passphrase rendezvous): they never meet again.
	res.desync = !res.completed && cl.CD.RemoteKey() != nil && s.CD.RemoteKey() == nil
	if !res.completed && getenv("C05_DUMP") != "" {
		if f, err := os.Create(fmt.Sprintf("%s.%d.%d", getenv("C05_DUMP"), seed%1000, time.Now().UnixNano()%100000)); err == nil {
			fmt.Fprintf(f, "profile %s events %+v\n", profile, m.EventsCopy())
			lg := relay.Log()
			if len(lg) > 150 {
				lg = lg[len(lg)-150:]
			}
			for _, e := range lg {
				fmt.Fprintln(f, e.T, e.Kind, e.Stream, e.Note)
			}
			_ = pprof.Lookup("goroutine").WriteTo(f, 1)
			f.Close()
		}
	}
	el := time.Since(t0)
	res.relayActiveTail = el-time.Duration(lastOp.Load()) < 15*time.Second
	if !res.completed {
		res.quietTail = el - time.Duration(lastOp.Load())
		for _, g := range eng.Census() {
			if strings.Contains(g.State, "Mutex") && strings.Contains(g.Stack, "lightning-node-connect/") && len(res.stuck) < 8 {
				res.stuck = append(res.stuck, g.Stack)
			}
		}
	}
	res.anyVisibleFailureTail = lastFail.Load() > 0 && el-time.Duration(lastFail.Load()) < 60*time.Second
	res.progress = fmt.Sprintf("c2s %d/%d bytes, s2c %d/%d bytes, %d connections, last relay op %v ago, last visible failure %v, elapsed %v",
		bytesA.Load(), totalA, bytesB.Load(), totalB, conns.Load(), (el - time.Duration(lastOp.Load())).Round(time.Millisecond), time.Duration(lastFail.Load()).Round(time.Millisecond), el.Round(time.Millisecond))
	close(stop)
	m.Stop()
	// unblock application goroutines
	w := make(chan struct{})
	go func() { appWG.Wait(); close(w) }()
	select {
	case <-w:
	case <-time.After(20 * time.Second):
	}
	// ciphertext only at the relay
	msgs := relay.Messages()
	res.relayMsgs = len(msgs)
	markers := [][]byte{auth, eng.StreamBytes('a', 0, 24), eng.StreamBytes('b', 0, 24)}
	if totalA > 3000 {
		markers = append(markers, eng.StreamBytes('a', 1500, 24))
	}
	if totalB > 3000 {
		markers = append(markers, eng.StreamBytes('b', 1500, 24))
	}
	for _, mk := range markers {
		if form := wireContains(msgs, mk); form != "" {
			res.plain = "a message seen by the relay contains application plaintext / the auth payload in " + form + " form"
		}
	}
	res.bytesA, res.bytesB = bytesA.Load(), bytesB.Load()
	res.bytes = res.bytesA + res.bytesB
	res.faults = int(faults.Load())
	res.conns = int(conns.Load())
	res.rep["progress"] = res.progress
	res.rep["events"] = fmt.Sprintf("%+v", m.EventsCopy())
	return res
}

// TestC05Debug runs one session by seed (C05_ONLY_SEED) and prints its progress;
// with C05_DUMP set, a goroutine dump and the relay log are written if the
// session does not complete. It is a debugging aid, not a registered check.
func TestC05Debug(t *testing.T) {
	s := getenv("C05_ONLY_SEED")
	if s == "" {
		t.Skip("C05_ONLY_SEED not set")
	}
	var seed int64
	fmt.Sscan(s, &seed)
	n := 1
	if r := getenv("C05_REPEAT"); r != "" {
		fmt.Sscan(r, &n)
	}
	var wg sync.WaitGroup
	for i := 0; i < n; i++ {
		wg.Add(1)
		go func() {
			defer wg.Done()
			r := c05Session(seed, 60*time.Second)
			fmt.Printf("completed=%v safety=%q desync=%v quiet=%v progress=%s\n", r.completed, r.safety, r.desync, r.quietTail, r.progress)
		}()
	}
	wg.Wait()
}

// TestC05DeadPeerDebug: paired session, the client uploads; then the server
// "dies": it reads nothing any more and everything it sends is lost. Prints how
// long the client's connection takes to close.
func TestC05DeadPeerDebug(t *testing.T) {
	if getenv("C05_DEBUG") == "" {
		t.Skip()
	}
	rng := rand.New(rand.NewSource(4242))
	pass := eng.Entropy(rng)
	relay := sim.NewRelay()
	relay.KeepMsg = false
	if c := getenv("C05_CAP"); c != "" {
		fmt.Sscan(c, &relay.Cap)
	}
	s := eng.NewMboxParty(eng.NewKey(rng), nil, pass, []byte("auth"), 0, 2)
	cl := eng.NewMboxParty(eng.NewKey(rng), nil, pass, nil, 0, 2)
	sid, _ := cl.CD.SID()
	c2s, s2c := sidHex(mailbox.GetSID(sid, false)), sidHex(mailbox.GetSID(sid, true))
	var dead atomic.Bool
	relay.Fault = func(op sim.RelayOp) sim.RelayAction {
		if dead.Load() && op.Kind == "send" && op.Stream == s2c {
			return sim.RelayAction{Drop: true}
		}
		return sim.RelayAction{}
	}
	m, err := eng.NewMboxSession(relay, s, cl)
	if err != nil {
		t.Fatal(err)
	}
	m.StartServer()
	m.StartClient()
	defer m.Stop()
	var sc, cc net.Conn
	for sc == nil || cc == nil {
		select {
		case sc = <-m.SConns:
		case cc = <-m.CConns:
		case <-time.After(40 * time.Second):
			t.Fatal("no pairing")
		}
	}
	go func() {
		b := make([]byte, 65536)
		for {
			if _, err := sc.Read(b); err != nil {
				return
			}
		}
	}()
	readDone := make(chan error, 1)
	go func() { _, err := cc.Read(make([]byte, 64)); readDone <- err }()
	upload := getenv("C05_UPLOAD") != ""
	if upload {
		go func() {
			for i := 0; i < 4000; i++ {
				if _, err := cc.Write(eng.StreamBytes('z', i*32768, 32768)); err != nil {
					return
				}
			}
		}()
	}
	time.Sleep(time.Second)
	t0 := time.Now()
	dead.Store(true)
	relay.FreezeReads(c2s, true)
	select {
	case err := <-readDone:
		fmt.Printf("dead peer (upload=%v): client read returned %v after %v\n", upload, err, time.Since(t0))
	case <-time.After(180 * time.Second):
		fmt.Printf("dead peer (upload=%v): client still open after %v\n", upload, time.Since(t0))
		_ = pprof.Lookup("goroutine").WriteTo(os.Stdout, 1)
	}
}
