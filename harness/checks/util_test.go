package checks

import (
	"fmt"
	"os"

	"verifharness/sim"
)

// wireTail renders the last n events of a wire log.
func wireTail(lg []sim.WireEvent, n int) []string {
	if len(lg) > n {
		lg = lg[len(lg)-n:]
	}
	out := make([]string, 0, len(lg))
	for _, e := range lg {
		s := fmt.Sprintf("%v %s #%d %s", e.T, e.Kind, e.Idx, e.P.String())
		if e.Dup > 0 {
			s += fmt.Sprintf(" x%d", e.Dup+1)
		}
		out = append(out, s)
	}
	return out
}

func getenv(k string) string { return os.Getenv(k) }
