package checks

import (
	"bytes"
	"context"
	"crypto/sha256"
	"errors"
	"fmt"
	"io"
	"math/rand"
	"net"
	"sync"
	"sync/atomic"
	"testing"
	"time"

	"verifharness/eng"
	"verifharness/mon"
	"verifharness/sim"

	"github.com/lightninglabs/lightning-node-connect/mailbox"
	"google.golang.org/grpc"
	"google.golang.org/grpc/encoding"
)

// The gRPC slice of C05: a real grpc.Server listens on the real mailbox.Server
// with the real NoiseGrpcConn as transport credentials, a real grpc.ClientConn
// dials through mailbox.Client with its own NoiseGrpcConn, both over the
// in-memory relay. The service has a unary method and a bidirectional stream
// and is spoken with a codec that passes raw bytes, so no generated code is
// needed. This is the composition LNC is made for: HTTP/2 framing, flow control,
// GOAWAY and gRPC's own connection management sit on top of Noise, GBN and the
// mailbox streams.

type rawCodec struct{}

func (rawCodec) Marshal(v any) ([]byte, error) {
	b, ok := v.(*[]byte)
	if !ok {
		return nil, fmt.Errorf("rawCodec: %T", v)
	}
	return *b, nil
}

func (rawCodec) Unmarshal(d []byte, v any) error {
	b, ok := v.(*[]byte)
	if !ok {
		return fmt.Errorf("rawCodec: %T", v)
	}
	*b = append((*b)[:0], d...)
	return nil
}

func (rawCodec) Name() string { return "verifraw" }

var _ encoding.Codec = rawCodec{}

// grpcReply is the deterministic answer of the service to a request: a header
// naming the request's hash, followed by a pseudo-random body whose length the
// request asks for in its first four bytes.
func grpcReply(req []byte) []byte {
	h := sha256.Sum256(req)
	n := 0
	if len(req) >= 4 {
		n = int(req[0])<<16 | int(req[1])<<8 | int(req[2])
	}
	out := make([]byte, 32+n)
	copy(out, h[:])
	x := uint32(h[0])<<8 | uint32(h[1])
	for i := 0; i < n; i++ {
		x = x*1664525 + 1013904223
		out[32+i] = byte(x >> 24)
	}
	return out
}

type echoService interface{}

func grpcServiceDesc() *grpc.ServiceDesc {
	return &grpc.ServiceDesc{
		ServiceName: "verif.Echo",
		HandlerType: (*echoService)(nil),
		Methods: []grpc.MethodDesc{{
			MethodName: "Unary",
			Handler: func(srv any, ctx context.Context, dec func(any) error, _ grpc.UnaryServerInterceptor) (any, error) {
				var req []byte
				if err := dec(&req); err != nil {
					return nil, err
				}
				out := grpcReply(req)
				return &out, nil
			},
		}},
		Streams: []grpc.StreamDesc{{
			StreamName:    "Pipe",
			ServerStreams: true,
			ClientStreams: true,
			Handler: func(srv any, stream grpc.ServerStream) error {
				for {
					var req []byte
					if err := stream.RecvMsg(&req); err != nil {
						if errors.Is(err, io.EOF) {
							return nil
						}
						return err
					}
					out := grpcReply(req)
					if err := stream.SendMsg(&out); err != nil {
						return err
					}
				}
			},
		}},
	}
}

type c05GrpcResult struct {
	rpcsOK, rpcsFailed int64
	streamMsgs         int64
	safety             string
	completed          bool
	progress           string
	faults             int64
	profile            string
	lastFailureAgo     time.Duration
	// desync: the recorded pairing-desync state (the client holds the
	// server's key, the server does not hold the client's): permanent.
	desync bool
	relayQuiet         time.Duration
	rep                map[string]any
}

// c05GrpcSession runs one session: the client issues nUnary unary calls (a few
// in flight at a time) and pushes nStream messages through one stream; a call
// that fails is repeated (gRPC re-dials by itself). Relay faults until a
// cut-off. The session is complete when every call has been answered once.
func c05GrpcSession(seed int64, deadline time.Duration) *c05GrpcResult {
	rng := rand.New(rand.NewSource(seed))
	res := &c05GrpcResult{}
	pass := eng.Entropy(rng)
	relay := sim.NewRelay()
	relay.KeepMsg, relay.KeepLog = false, false
	s := eng.NewMboxParty(eng.NewKey(rng), nil, pass, []byte("macaroon"), 0, 2)
	cl := eng.NewMboxParty(eng.NewKey(rng), nil, pass, nil, 0, 2)

	profiles := []string{"clean", "drop", "delay", "break-send", "break-recv", "mixed"}
	profile := profiles[rng.Intn(len(profiles))]
	faultUntil := time.Duration(4+rng.Intn(10)) * time.Second
	t0 := time.Now()
	var faults, lastOp atomic.Int64
	frng := rand.New(rand.NewSource(rng.Int63()))
	var fmu sync.Mutex
	breakErr := errors.New("rpc error: code = Unavailable desc = transport is closing (injected)")
	relay.Fault = func(op sim.RelayOp) sim.RelayAction {
		lastOp.Store(int64(time.Since(t0)))
		if time.Since(t0) > faultUntil || profile == "clean" {
			return sim.RelayAction{}
		}
		fmu.Lock()
		defer fmu.Unlock()
		x := frng.Float64()
		switch op.Kind {
		case "send":
			switch {
			case (profile == "drop" || profile == "mixed") && x < 0.05:
				faults.Add(1)
				return sim.RelayAction{Drop: true}
			case (profile == "delay" || profile == "mixed") && x < 0.2:
				faults.Add(1)
				return sim.RelayAction{Delay: time.Duration(frng.Intn(300)) * time.Millisecond}
			case (profile == "break-send" || profile == "mixed") && x > 0.98:
				faults.Add(1)
				return sim.RelayAction{Fail: breakErr}
			}
		case "recv":
			if (profile == "break-recv" || profile == "mixed") && x > 0.98 {
				faults.Add(1)
				return sim.RelayAction{Fail: breakErr}
			}
		}
		return sim.RelayAction{}
	}

	ctx, cancel := context.WithCancel(context.Background())
	defer cancel()
	lis, err := mailbox.VerifNewServer("relay.test:443", s.CD, func(mailbox.ServerStatus) {}, relay)
	if err != nil {
		res.safety = "server setup: " + err.Error()
		return res
	}
	srv := grpc.NewServer(grpc.Creds(s.Noise), grpc.ForceServerCodec(rawCodec{}), grpc.MaxRecvMsgSize(8<<20))
	srv.RegisterService(grpcServiceDesc(), struct{}{})
	srvDone := make(chan struct{})
	tl := &trackingListener{Listener: lis}
	go func() { defer close(srvDone); _ = srv.Serve(tl) }()

	// Events during the session: the server side drops the current
	// connection (as a server does that shuts a transport down), or the
	// relay loses its mailboxes. gRPC reconnects by itself.
	nEvents := rng.Intn(3)
	var events []string
	for i := 0; i < nEvents; i++ {
		at := time.Duration(200+rng.Intn(6000)) * time.Millisecond
		kind := []string{"server-closes-connection", "server-closes-connection", "relay-restart"}[rng.Intn(3)]
		events = append(events, fmt.Sprintf("%s@%v", kind, at))
		go func() {
			select {
			case <-time.After(at):
			case <-ctx.Done():
				return
			}
			switch kind {
			case "server-closes-connection":
				tl.closeLast()
			case "relay-restart":
				relay.Restart()
			}
		}()
	}

	client, err := mailbox.NewClient(ctx, "relay.test:443", cl.CD, mailbox.VerifWithHashMailClient(relay))
	if err != nil {
		res.safety = "client setup: " + err.Error()
		return res
	}
	cc, err := grpc.DialContext(ctx, "relay.test:443",
		grpc.WithContextDialer(client.Dial),
		grpc.WithTransportCredentials(cl.Noise),
		grpc.WithDefaultCallOptions(grpc.ForceCodec(rawCodec{}), grpc.MaxCallRecvMsgSize(8<<20)),
	)
	if err != nil {
		res.safety = "grpc dial: " + err.Error()
		return res
	}

	// The fault closure above reads profile concurrently: the label of the
	// session is a separate variable.
	label := profile
	if nEvents > 0 {
		label += "+events"
	}
	res.profile = label
	nUnary := 6 + rng.Intn(20)
	nStream := 5 + rng.Intn(30)
	mkReq := func(r *rand.Rand, tag byte, i int) []byte {
		respLen := []int{0, 1, 100, 5000, 40000, 200000}[r.Intn(6)]
		reqLen := 4 + []int{0, 1, 50, 3000, 70000}[r.Intn(5)]
		b := make([]byte, reqLen)
		r.Read(b)
		b[0], b[1], b[2], b[3] = byte(respLen>>16), byte(respLen>>8), byte(respLen), tag
		if len(b) >= 8 {
			b[4], b[5], b[6], b[7] = byte(i>>24), byte(i>>16), byte(i>>8), byte(i)
		}
		return b
	}
	var mu sync.Mutex
	setSafety := func(sfty string) {
		mu.Lock()
		if res.safety == "" {
			res.safety = sfty
		}
		mu.Unlock()
	}
	var lastFail atomic.Int64
	var okCalls, failedCalls, streamMsgs atomic.Int64
	var unaryDone, streamDone atomic.Bool
	var wg sync.WaitGroup

	// unary calls, up to 3 in flight
	wg.Add(1)
	go func() {
		defer wg.Done()
		sem := make(chan struct{}, 3)
		var cw sync.WaitGroup
		ur := rand.New(rand.NewSource(seed ^ 0x55))
		for i := 0; i < nUnary && ctx.Err() == nil; i++ {
			req := mkReq(ur, 'u', i)
			select {
			case <-time.After(time.Duration(ur.Intn(400)) * time.Millisecond):
			case <-ctx.Done():
			}
			sem <- struct{}{}
			cw.Add(1)
			go func(i int, req []byte) {
				defer cw.Done()
				defer func() { <-sem }()
				for ctx.Err() == nil {
					cctx, ccancel := context.WithTimeout(ctx, 40*time.Second)
					var resp []byte
					err := cc.Invoke(cctx, "/verif.Echo/Unary", &req, &resp, grpc.WaitForReady(true))
					ccancel()
					if err != nil {
						failedCalls.Add(1)
						lastFail.Store(int64(time.Since(t0)))
						select {
						case <-time.After(200 * time.Millisecond):
						case <-ctx.Done():
						}
						continue
					}
					if !bytes.Equal(resp, grpcReply(req)) {
						setSafety(fmt.Sprintf("unary call #%d: the reply (%d bytes) is not the reply to this request (%d bytes expected)", i, len(resp), len(grpcReply(req))))
					}
					okCalls.Add(1)
					return
				}
			}(i, req)
		}
		cw.Wait()
		if ctx.Err() == nil {
			unaryDone.Store(true)
		}
	}()

	// one stream at a time; if it breaks, a new one continues with the
	// message that was not answered
	wg.Add(1)
	go func() {
		defer wg.Done()
		sr := rand.New(rand.NewSource(seed ^ 0xAA))
		reqs := make([][]byte, nStream)
		for i := range reqs {
			reqs[i] = mkReq(sr, 's', i)
		}
		next := 0
		for next < nStream && ctx.Err() == nil {
			sctx, scancel := context.WithCancel(ctx)
			st, err := cc.NewStream(sctx, &grpc.StreamDesc{StreamName: "Pipe", ServerStreams: true, ClientStreams: true}, "/verif.Echo/Pipe", grpc.WaitForReady(true))
			if err != nil {
				scancel()
				lastFail.Store(int64(time.Since(t0)))
				select {
				case <-time.After(200 * time.Millisecond):
				case <-ctx.Done():
				}
				continue
			}
			for next < nStream {
				select {
				case <-time.After(time.Duration(sr.Intn(300)) * time.Millisecond):
				case <-ctx.Done():
				}
				watch := time.AfterFunc(40*time.Second, scancel)
				err := st.SendMsg(&reqs[next])
				var resp []byte
				if err == nil {
					err = st.RecvMsg(&resp)
				}
				watch.Stop()
				if err != nil {
					failedCalls.Add(1)
					lastFail.Store(int64(time.Since(t0)))
					break
				}
				if !bytes.Equal(resp, grpcReply(reqs[next])) {
					setSafety(fmt.Sprintf("stream message #%d: the reply (%d bytes) is not the reply to this message", next, len(resp)))
				}
				streamMsgs.Add(1)
				next++
			}
			scancel()
		}
		if next == nStream {
			streamDone.Store(true)
		}
	}()

	tick := time.NewTicker(100 * time.Millisecond)
	defer tick.Stop()
	var desyncSince time.Time
	for time.Since(t0) < deadline {
		<-tick.C
		mu.Lock()
		bad := res.safety != ""
		mu.Unlock()
		if bad || (unaryDone.Load() && streamDone.Load()) {
			break
		}
		// The pairing-desync state is permanent: a session that has been
		// in it for 30 s need not wait for its deadline. (A pairing in
		// progress passes through this state for the moment between the
		// client's act three and the server's processing of it.)
		if cl.CD.RemoteKey() != nil && s.CD.RemoteKey() == nil {
			if desyncSince.IsZero() {
				desyncSince = time.Now()
			} else if time.Since(desyncSince) > 30*time.Second {
				break
			}
		} else {
			desyncSince = time.Time{}
		}
	}
	res.completed = unaryDone.Load() && streamDone.Load()
	res.desync = !res.completed && cl.CD.RemoteKey() != nil && s.CD.RemoteKey() == nil
	el := time.Since(t0)
	res.lastFailureAgo = -1
	if lf := lastFail.Load(); lf > 0 {
		res.lastFailureAgo = el - time.Duration(lf)
	}
	res.relayQuiet = el - time.Duration(lastOp.Load())
	res.rpcsOK, res.rpcsFailed, res.streamMsgs, res.faults = okCalls.Load(), failedCalls.Load(), streamMsgs.Load(), faults.Load()
	res.progress = fmt.Sprintf("unary %d/%d answered, stream %d/%d answered, %d failed attempts, last failure %v ago, last relay op %v ago, elapsed %v",
		okCalls.Load(), nUnary, streamMsgs.Load(), nStream, failedCalls.Load(), res.lastFailureAgo.Round(time.Millisecond), res.relayQuiet.Round(time.Millisecond), el.Round(time.Millisecond))
	res.rep = map[string]any{"kind": "grpc", "seed": fmt.Sprint(seed), "profile": label, "events": events, "fault_until": faultUntil.String(), "unary_calls": nUnary, "stream_messages": nStream, "progress": res.progress}

	cancel()
	_ = cc.Close()
	stopped := make(chan struct{})
	go func() { srv.Stop(); close(stopped) }()
	select {
	case <-stopped:
	case <-time.After(30 * time.Second):
	}
	w := make(chan struct{})
	go func() { wg.Wait(); close(w) }()
	select {
	case <-w:
	case <-time.After(20 * time.Second):
	}
	return res
}

// runC05Grpc runs a batch of gRPC sessions.
func runC05Grpc(c *mon.Case) {
	const batch = 6
	var wg sync.WaitGroup
	for i := 0; i < batch; i++ {
		seed := c.Rng.Int63()
		wg.Add(1)
		go func(seed int64) {
			defer wg.Done()
			r := c05GrpcSession(seed, 150*time.Second)
			if r.safety != "" {
				c.Shard.Violate("grpc|wrong-reply", r.safety, r.rep)
			}
			if r.desync && r.safety == "" {
				// The state is permanent (the two never meet again): no
				// point in repeating the session with a longer allowance.
				c.Shard.Violate("pairing-desync", fmt.Sprintf("gRPC session: the client completed the first handshake and moved to the key-derived rendezvous, the server did not complete it (act three lost or late) and stays on the passphrase rendezvous: %s", r.progress), r.rep)
			} else if !r.completed && r.safety == "" {
				r2 := c05GrpcSession(seed, 300*time.Second)
				switch {
				case r2.safety != "":
					c.Shard.Violate("grpc|wrong-reply", r2.safety, r2.rep)
				case r2.desync:
					c.Shard.Violate("pairing-desync", fmt.Sprintf("gRPC session (reproduced run): the client completed the first handshake and moved to the key-derived rendezvous, the server did not complete it and stays on the passphrase rendezvous: %s", r2.progress), r2.rep)
				case r2.completed:
					c.Shard.Inconc(fmt.Sprintf("gRPC session seed %d missed its 150 s deadline once but completed on the re-run (load)", seed))
				case r2.lastFailureAgo < 0 || r2.lastFailureAgo > 90*time.Second:
					c.Shard.Violate("grpc|silent-hang|"+r2.profile, fmt.Sprintf("after relay faults ceased the calls neither completed nor failed for the last 90 s and more (reproduced, 300 s): %s", r2.progress), r2.rep)
				default:
					c.Shard.Inconc(fmt.Sprintf("gRPC session seed %d did not complete in 300 s: %s", seed, r2.progress))
				}
			}
			c.Shard.Count("grpc_sessions", 1)
			c.Shard.Count("grpc_unary_calls_answered", r.rpcsOK)
			c.Shard.Count("grpc_stream_messages_answered", r.streamMsgs)
			c.Shard.Count("grpc_failed_attempts", r.rpcsFailed)
			c.Shard.Count("faults_injected", r.faults)
			if r.completed {
				c.Shard.Eval(fmt.Sprintf("grpc|%s|%x", r.profile, seed&0xffffff))
			} else {
				c.Shard.Eval("")
			}
		}(seed)
	}
	wg.Wait()
}

// TestC05GrpcDebug runs one gRPC session by seed.
func TestC05GrpcDebug(t *testing.T) {
	s := getenv("C05_GRPC_SEED")
	if s == "" {
		t.Skip("C05_GRPC_SEED not set")
	}
	var seed int64
	fmt.Sscan(s, &seed)
	n := 1
	if v := getenv("C05_GRPC_N"); v != "" {
		fmt.Sscan(v, &n)
	}
	sem := make(chan struct{}, 8)
	var wg sync.WaitGroup
	var done, bad atomic.Int64
	for i := 0; i < n; i++ {
		sem <- struct{}{}
		wg.Add(1)
		go func(sd int64) {
			defer wg.Done()
			defer func() { <-sem }()
			r := c05GrpcSession(sd, 120*time.Second)
			done.Add(1)
			if !r.completed || r.safety != "" || n == 1 {
				bad.Add(1)
				fmt.Printf("seed=%d completed=%v safety=%q profile=%s %s events=%v\n", sd, r.completed, r.safety, r.profile, r.progress, r.rep["events"])
			}
		}(seed + int64(i))
	}
	wg.Wait()
	fmt.Printf("sessions=%d reported=%d\n", done.Load(), bad.Load())
}

// trackingListener remembers the connections the gRPC server accepted.
type trackingListener struct {
	net.Listener
	mu    sync.Mutex
	conns []net.Conn
}

func (t *trackingListener) Accept() (net.Conn, error) {
	c, err := t.Listener.Accept()
	if err == nil {
		t.mu.Lock()
		t.conns = append(t.conns, c)
		t.mu.Unlock()
	}
	return c, err
}

func (t *trackingListener) closeLast() {
	t.mu.Lock()
	var c net.Conn
	if len(t.conns) > 0 {
		c = t.conns[len(t.conns)-1]
	}
	t.mu.Unlock()
	if c != nil {
		_ = c.Close()
	}
}
