#!/bin/bash
# Builds the framework offline from files on disk: the check binary (plain and -race).
set -e
export GOFLAGS=-mod=mod GOPROXY=off GOSUMDB=off GOTOOLCHAIN=local
ROOT="$(cd "$(dirname "$0")" && pwd)"
cd "$ROOT/harness"
mkdir -p "$ROOT/.build" "$ROOT/evidence" "$ROOT/replays"
go1.26.8 test -c -tags "verif rpctest" -o "$ROOT/.build/checks.test" ./checks
go1.26.8 test -c -race -tags "verif rpctest" -o "$ROOT/.build/checks-race.test" ./checks
echo "setup ok"
