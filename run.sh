#!/bin/bash
# run.sh <property-id> [quick|thorough] [--replay <path>] [--race]
# Rebuilds the check from /repo's current working tree (hooks enabled) and runs it.
set -u
ID="$1"; shift
TIER="${VERIF_TIER:-quick}"
RACE=""
REPLAY=""
while [ $# -gt 0 ]; do
  case "$1" in
    quick|thorough) TIER="$1";;
    --race) RACE="-race";;
    --replay) shift; REPLAY="$1";;
  esac
  shift
done
export GOFLAGS=-mod=mod GOPROXY=off GOSUMDB=off GOTOOLCHAIN=local
export VERIF_TIER="$TIER"
export VERIF_ROOT="$(cd "$(dirname "$0")" && pwd)"
cd "$VERIF_ROOT/harness" || exit 2
mkdir -p "$VERIF_ROOT/.build" "$VERIF_ROOT/evidence" "$VERIF_ROOT/replays"
BIN="$VERIF_ROOT/.build/checks${RACE:+-race}.test"
# Serialise concurrent builds of the same binary.
(
  flock 9
  go1.26.8 test -c $RACE -tags "verif rpctest" -o "$BIN" ./checks
) 9>"$VERIF_ROOT/.build/.lock${RACE:+-race}" || { echo "BUILD FAILED for $ID"; exit 2; }
[ -n "$REPLAY" ] && export VERIF_REPLAY="$REPLAY"
exec "$BIN" -test.run "^Test${ID}\$" -test.timeout 0 -test.count 1
