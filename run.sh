#!/bin/bash
# run.sh <property-id> [quick|thorough] [--replay <path>] [--race]
# Rebuilds the check from /repo's current working tree (hooks enabled) and runs it.
set -u
ID="$1"; shift
TIER="${VERIF_TIER:-quick}"
RACE=""
REPLAY=""
# C18 is decided by the race detector: always use the -race build.
[ "$ID" = "C18" ] && RACE="-race"
while [ $# -gt 0 ]; do
  case "$1" in
    quick|thorough) TIER="$1";;
    --race) RACE="-race";;
    --replay) shift; REPLAY="$1";;
  esac
  shift
done
export GOFLAGS=-mod=mod GOPROXY=off GOSUMDB=off GOTOOLCHAIN=local
export VERIF_TIER="$TIER"
HERE="$(cd "$(dirname "$0")" && pwd)"
# VERIF_ROOT_OVERRIDE=1 keeps a caller-provided VERIF_ROOT (evidence/replays of
# mutation runs go elsewhere); normally everything lives next to this script.
if [ -z "${VERIF_ROOT_OVERRIDE:-}" ] || [ -z "${VERIF_ROOT:-}" ]; then export VERIF_ROOT="$HERE"; fi
cd "$HERE/harness" || exit 2
mkdir -p "$HERE/.build" "$VERIF_ROOT/evidence" "$VERIF_ROOT/replays"
# VERIF_REPO (default /repo) lets a scratch copy of the repository be checked
# (mutation sweeps); registered commands always use /repo.
REPO="${VERIF_REPO:-/repo}"
MODFLAG=""
SUFFIX=""
if [ "$REPO" != "/repo" ]; then
  SUFFIX="-$(echo "$REPO" | md5sum | cut -c1-8)"
  sed "s#=> /repo/#=> $REPO/#" go.mod > "$HERE/.build/alt$SUFFIX.mod"
  cp go.sum "$HERE/.build/alt$SUFFIX.sum"
  MODFLAG="-modfile=$HERE/.build/alt$SUFFIX.mod"
fi
BIN="$HERE/.build/checks${RACE:+-race}$SUFFIX.test"
# Serialise concurrent builds of the same binary.
(
  flock 9
  go1.26.8 test -c $RACE $MODFLAG -tags "verif rpctest" -o "$BIN" ./checks
) 9>"$HERE/.build/.lock${RACE:+-race}$SUFFIX" || { echo "BUILD FAILED for $ID"; exit 2; }
[ -n "$REPLAY" ] && export VERIF_REPLAY="$REPLAY"
exec "$BIN" -test.run "^Test${ID}\$" -test.timeout 0 -test.count 1
